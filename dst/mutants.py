"""Sensitivity suite: apply each recorded change to a scratch copy of /repo, run the check that is
expected to catch it, expect exit 1, delete the copy.

  python dst/mutants.py build            regenerate mutants/<id>.diff from mutants/specs.py
  python dst/mutants.py run [ids...]     run hand-written mutants (mutants/*.diff)
  python dst/mutants.py seeded [ids...]  run sub-agent changes (seeded/<id>/patch.diff)
Options: --tests (also run the repo's test suite on the mutant), --tier quick|thorough
"""
import json
import os
import shutil
import subprocess
import sys
import time

VERIF = os.path.dirname(os.path.dirname(os.path.abspath(__file__)))
SCRATCH = "/dev/shm/dst_mutants"


def sh(cmd, **kw):
    return subprocess.run(cmd, shell=True, capture_output=True, text=True, **kw)


def fresh_copy(name, commit="HEAD"):
    d = os.path.join(SCRATCH, name)
    shutil.rmtree(d, ignore_errors=True)
    os.makedirs(d)
    r = sh("git -C /repo archive %s | tar -x -C %s" % (commit, d))
    if r.returncode:
        raise SystemExit(r.stderr)
    return d


def build():
    sys.path.insert(0, os.path.join(VERIF, "mutants"))
    import specs

    for (mid, prop, path, old, new) in specs.M:
        d = fresh_copy("build")
        f = os.path.join(d, path)
        s = open(f).read()
        if s.count(old) != 1:
            print("SPEC DOES NOT APPLY", mid, s.count(old))
            continue
        open(f, "w").write(s.replace(old, new))
        sh("cd %s && git init -q . && git add -A >/dev/null" % d)
        # diff against HEAD of /repo
        r = sh("diff -u /dev/null /dev/null; cd %s && git --git-dir=/repo/.git --work-tree=%s diff HEAD -- %s" % (d, d, path))
        out = os.path.join(VERIF, "mutants", mid + ".diff")
        open(out, "w").write(r.stdout)
        meta = os.path.join(VERIF, "mutants", mid + ".json")
        old_meta = json.load(open(meta)) if os.path.exists(meta) else {}
        old_meta.update({"id": mid, "property": prop, "file": path})
        json.dump(old_meta, open(meta, "w"), indent=1)
        print("built", mid, len(r.stdout.splitlines()), "lines")
    shutil.rmtree(os.path.join(SCRATCH, "build"), ignore_errors=True)


def run_one(mid, patch, prop, tier, tests, extra_args="", base=None):
    d = fresh_copy(mid)
    res = {"id": mid, "property": prop}
    try:
        r = sh("cd %s && patch -p1 -s --no-backup-if-mismatch < %s" % (d, patch))
        if r.returncode and base:
            # the change was written against an earlier commit of /repo (before a later fix: commit
            # touched the same lines): demonstrate it on that commit
            d = fresh_copy(mid, base)
            r = sh("cd %s && patch -p1 -s --no-backup-if-mismatch < %s" % (d, patch))
            res["base"] = base
        if r.returncode:
            res["error"] = "patch failed: " + r.stdout + r.stderr
            return res
        if tests:
            t = sh("cd %s && PYTHONPATH=%s /venv/bin/python -m pytest -q -x -p no:cacheprovider 2>&1 | tail -1" % (d, d))
            res["tests"] = t.stdout.strip()
        out = os.path.join(d, "_out")
        t0 = time.time()
        r = sh("cd %s && VERIF_REPO=%s VERIF_OUT=%s timeout 1500 ./check %s --tier %s %s" % (VERIF, d, out, prop, tier, extra_args))
        res["wall_s"] = round(time.time() - t0, 1)
        res["exit"] = r.returncode
        lines = [l for l in r.stdout.splitlines() if l.startswith(("violation", "VIOLATION", "INTERNAL", "OK", "runs="))]
        res["output"] = lines[:6]
        res["caught"] = r.returncode == 1
    finally:
        shutil.rmtree(d, ignore_errors=True)
    return res


def main():
    args = [a for a in sys.argv[1:] if not a.startswith("--")]
    tests = "--tests" in sys.argv
    tier = "quick"
    for a in sys.argv:
        if a.startswith("--tier="):
            tier = a.split("=", 1)[1]
    allprops = "--all-checks" in sys.argv
    if not args:
        print(__doc__)
        return 2
    if args[0] == "build":
        build()
        return 0
    results = []
    if args[0] == "run":
        ids = args[1:] or sorted(f[:-5] for f in os.listdir(os.path.join(VERIF, "mutants")) if f.endswith(".diff"))
        for mid in ids:
            meta = json.load(open(os.path.join(VERIF, "mutants", mid + ".json")))
            r = run_one(mid, os.path.join(VERIF, "mutants", mid + ".diff"), meta["property"], tier, tests)
            print(json.dumps(r))
            results.append(r)
            meta["last_run"] = {k: r.get(k) for k in ("caught", "exit", "wall_s", "tests", "output")}
            json.dump(meta, open(os.path.join(VERIF, "mutants", mid + ".json"), "w"), indent=1)
    elif args[0] == "seeded":
        ids = args[1:] or sorted(os.listdir(os.path.join(VERIF, "seeded")))
        for sid in ids:
            meta = json.load(open(os.path.join(VERIF, "seeded", sid, "meta.json")))
            props = [meta["property"]]
            if allprops:
                props = ["C01", "C03", "C04", "C05", "C08", "C10", "C16", "C17", "C20"]
            for prop in props:
                r = run_one(sid, os.path.join(VERIF, "seeded", sid, "patch.diff"), prop, tier, tests,
                            base=meta.get("base_commit"))
                print(json.dumps(r))
                results.append(r)
    missed = [r["id"] for r in results if not r.get("caught")]
    print("caught %d / %d; missed: %s" % (len(results) - len(missed), len(results), missed))
    return 0


if __name__ == "__main__":
    sys.exit(main())
