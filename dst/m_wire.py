"""C05: everything that crosses the simulated wire / durable store is real JSON bytes."""
import json

import core
import tokens as tk
from boot import pm, pt

Step = pt.Step


def live_containers_of_node(node, acc):
    if isinstance(node.attrs, (dict, list)):
        walk_containers(node.attrs, acc)
    for m in node.marks:
        walk_containers(m.attrs, acc)
    if isinstance(node.marks, list):
        acc[id(node.marks)] = node.marks
    for ch in node.content.content:
        live_containers_of_node(ch, acc)
    acc[id(node.content.content)] = node.content.content


def walk_containers(v, acc):
    if isinstance(v, dict):
        acc[id(v)] = v
        for x in v.values():
            walk_containers(x, acc)
    elif isinstance(v, list):
        acc[id(v)] = v
        for x in v:
            walk_containers(x, acc)


def live_containers_of_step(step):
    acc = {}
    if hasattr(step, "slice"):
        for ch in step.slice.content.content:
            live_containers_of_node(ch, acc)
        acc[id(step.slice.content.content)] = step.slice.content.content
    if hasattr(step, "mark"):
        walk_containers(step.mark.attrs, acc)
    if hasattr(step, "value"):
        walk_containers(step.value, acc)
    return acc


def is_plain(v):
    if v is None or isinstance(v, (str, int, float, bool)):
        return True
    if type(v) is list:
        return all(is_plain(x) for x in v)
    if type(v) is dict:
        return all(type(k) is str and is_plain(x) for k, x in v.items())
    return False


def find_alias(js, live, path="$"):
    if isinstance(js, dict):
        if id(js) in live and (js or True):
            return path
        for k, v in js.items():
            r = find_alias(v, live, path + "." + str(k))
            if r:
                return r
    elif isinstance(js, list):
        if id(js) in live:
            return path
        for i, v in enumerate(js):
            r = find_alias(v, live, "%s[%d]" % (path, i))
            if r:
                return r
    return None


class WireMonitors:
    def c05_init(self):
        self.c05_twins = {}

    def c05_registry(self):
        from prosemirror.transform.step import STEPS_BY_ID

        if "C05" not in self.on:
            return
        for name in core.STEP_KINDS:
            cls = STEPS_BY_ID.get(name)
            if cls is None or getattr(cls, "json_id", None) != name:
                self.violation("C05", "registry.missing", {"shape": name})

    # steps inside push / broadcast messages
    def on_steps_on_wire(self, msg, payload, origs):
        if "C05" not in self.on:
            return
        for sj, orig in zip(payload["steps"], origs):
            self.guard("C05", self.c05_step, orig, sj, msg["kind"])

    def c05_step(self, orig, sj, site):
        sim = self.sim
        kind = core.step_kind(orig)
        self.probes["C05.wire_kind:" + kind] += 1
        key = self.step_key(orig)
        self.count("C05", ("step", key), sample={"site": site, "json": sj} if len(str(sj)) < 500 else None)
        det = {"shape": kind, "json": sj, "site": site}
        if not is_plain(sj):
            self.violation("C05", "json.not_plain", det)
            return
        alias = find_alias(sj, live_containers_of_step(orig))
        if alias:
            self.violation("C05", "json.aliases_live_object", dict(det, path=alias))
            return
        if sj.get("stepType") != kind:
            self.violation("C05", "json.step_type", det)
            return
        # a peer's serialiser may order keys and escape non-ASCII differently: vary both,
        # deterministically per step
        variant = int(key[:2], 16) if isinstance(key, str) and len(key) >= 2 else 0
        data = json.dumps(sj, ensure_ascii=bool(variant & 1), sort_keys=bool(variant & 2)).encode("utf-8")
        self.probes["C05.encoding_variant:%d" % (variant & 3)] += 1
        back = json.loads(data.decode("utf-8"))
        try:
            dec = Step.from_json(sim.schema, back)
        except Exception as e:  # noqa: BLE001
            self.violation("C05", "decode.raised", dict(det, error=repr(e)))
            return
        if type(dec) is not type(orig):
            self.violation("C05", "decode.wrong_class", dict(det, got=type(dec).__name__))
            return
        why = self.step_differs(orig, dec)
        if why:
            self.violation("C05", "decode.not_equal", dict(det, why=why))
            return
        again = dec.to_json()
        if tk.canon(again) != tk.canon(sj):
            self.violation("C05", "reserialise.differs", dict(det, again=again))
            return
        ga, gb = orig.get_map(), dec.get_map()
        if list(ga.ranges) != list(gb.ranges) or bool(ga.inverted) != bool(gb.inverted):
            self.violation("C05", "decode.map_differs", dict(det, a=list(ga.ranges), b=list(gb.ranges)))
            return
        # string input form accepted by from_json
        try:
            dec2 = Step.from_json(sim.schema, data.decode("utf-8"))
        except Exception as e:  # noqa: BLE001
            self.violation("C05", "decode.str_raised", dict(det, error=repr(e)))
            return
        if tk.canon(dec2.to_json()) != tk.canon(sj):
            self.violation("C05", "decode.str_differs", det)

    def step_differs(self, a, b):
        for f in ("from_", "to", "gap_from", "gap_to", "insert", "structure", "pos", "attr"):
            if hasattr(a, f) != hasattr(b, f):
                return "field " + f
            if hasattr(a, f) and (getattr(a, f) != getattr(b, f) or type(getattr(a, f)) is not type(getattr(b, f))):
                return "field %s: %r vs %r" % (f, getattr(a, f), getattr(b, f))
        if hasattr(a, "value"):
            if tk.canon(a.value) != tk.canon(b.value):
                return "value"
        if hasattr(a, "mark"):
            if not a.mark.eq(b.mark) or tk.marks_key([a.mark]) != tk.marks_key([b.mark]):
                return "mark"
        if hasattr(a, "slice"):
            sa, sb = a.slice, b.slice
            if sa.open_start != sb.open_start or sa.open_end != sb.open_end:
                return "open depths"
            if tk.tokens(sa.content, "markup") != tk.tokens(sb.content, "markup"):
                return "slice tokens"
            if not sa.eq(sb):
                return "slice.eq false"
        return None

    # the decoded step meets documents chosen by the schedule: original and decoded must agree
    def on_step_decoded(self, orig, dec, sj, doc, site):
        if "C05" not in self.on or orig is None:
            return
        self.c05_twins[id(dec)] = (dec, orig)
        if len(self.c05_twins) > 500:
            for k in list(self.c05_twins)[:250]:
                del self.c05_twins[k]

    def c05_twin_check(self, step, doc, res):
        tw = self.c05_twins.get(id(step))
        if tw is None or tw[0] is not step:
            return
        orig = tw[1]
        self.probes["C05.twin_applications"] += 1
        self.count("C05", ("twin", self.step_key(step), self.dg(doc)))
        try:
            r2 = core.raw_apply(orig, doc)
        except Exception as e:  # noqa: BLE001
            self.violation("C05", "effect.original_raised", {"shape": core.step_kind(step),
                                                             "json": self.describe_step(step), "error": repr(e)})
            return
        if r2.failed or r2.doc is None or not self.doc_equal(r2.doc, res.doc):
            self.violation("C05", "effect.differs", {
                "shape": core.step_kind(step), "json": self.describe_step(step), "doc": doc.to_json(),
                "decoded_result": res.doc.to_json(),
                "original_result": r2.doc.to_json() if r2.doc is not None else r2.failed})

    # documents: snapshots, reload, journal bases
    def on_wire(self, what, obj, data, site, key=None):
        if "C05" not in self.on:
            return
        sim = self.sim
        if what == "doc":
            js = json.loads(data.decode("utf-8"))
            if key == "doc" and isinstance(js, dict) and "doc" in js and "type" not in js:
                js = js["doc"]
            self.guard("C05", self.c05_doc, obj, js, site)
        elif what == "step":
            js = json.loads(data.decode("utf-8"))
            self.guard("C05", self.c05_step, obj, js["step"] if "step" in js else js, site)

    def c05_doc(self, doc, js, site):
        sim = self.sim
        self.probes["C05.docs"] += 1
        self.count("C05", ("doc", self.dg(doc)))
        det = {"shape": "doc", "site": site, "json": js}
        fresh = doc.to_json()
        if not is_plain(fresh):
            self.violation("C05", "json.not_plain", det)
            return
        acc = {}
        live_containers_of_node(doc, acc)
        alias = find_alias(fresh, acc)
        if alias:
            self.violation("C05", "json.aliases_live_object", dict(det, path=alias))
            return
        try:
            dec = pm.Node.from_json(sim.schema, js)
        except Exception as e:  # noqa: BLE001
            self.violation("C05", "decode.raised", dict(det, error=repr(e)))
            return
        if not self.doc_equal(dec, doc) or not dec.eq(doc):
            self.violation("C05", "decode.not_equal", dict(det, got=dec.to_json()))
            return
        if tk.canon(dec.to_json()) != tk.canon(js):
            self.violation("C05", "reserialise.differs", dict(det, again=dec.to_json()))

    def on_doc_decoded(self, orig, dec, js, site):
        if "C05" not in self.on or orig is None:
            return
        if not self.doc_equal(orig, dec) or not dec.eq(orig):
            self.violation("C05", "decode.not_equal", {"shape": "doc", "site": site, "json": js,
                                                       "got": dec.to_json()})

    # fragments, slices, marks, mark sets on their own (clipboard / paste payloads)
    def c05_parts(self, tr):
        sim = self.sim
        schema = sim.schema
        for st in tr.steps[:3]:
            if hasattr(st, "slice") and st.slice.size:
                sl = st.slice
                js = sl.to_json()
                back = json.loads(json.dumps(js, ensure_ascii=False))
                self.count("C05", ("slice", tk.canon(js)[:200]))
                self.probes["C05.slices"] += 1
                det = {"shape": "slice", "json": js}
                try:
                    dec = pm.Slice.from_json(schema, back)
                    fr = pm.Fragment.from_json(schema, back["content"])
                except Exception as e:  # noqa: BLE001
                    self.violation("C05", "decode.raised", dict(det, error=repr(e)))
                    return
                if (dec.open_start, dec.open_end) != (sl.open_start, sl.open_end) or not dec.eq(sl) or \
                        tk.tokens(dec.content, "markup") != tk.tokens(sl.content, "markup"):
                    self.violation("C05", "decode.not_equal", det)
                    return
                if tk.canon(dec.to_json()) != tk.canon(js):
                    self.violation("C05", "reserialise.differs", dict(det, again=dec.to_json()))
                    return
                if not fr.eq(sl.content) or tk.canon(fr.to_json()) != tk.canon(js["content"]):
                    self.violation("C05", "decode.not_equal", dict(det, shape="fragment"))
                    return
                acc = {}
                for ch in sl.content.content:
                    live_containers_of_node(ch, acc)
                alias = find_alias(js, acc)
                if alias:
                    self.violation("C05", "json.aliases_live_object", dict(det, path=alias))
                    return
                # mark sets of the slice's nodes
                for ch in sl.content.content[:3]:
                    if ch.marks:
                        mj = [m.to_json() for m in ch.marks]
                        back = json.loads(json.dumps(mj, ensure_ascii=False))
                        try:
                            ms = [pm.Mark.from_json(schema, x) for x in back]
                        except Exception as e:  # noqa: BLE001
                            self.violation("C05", "decode.raised", {"shape": "markset", "json": mj, "error": repr(e)})
                            return
                        self.probes["C05.marksets"] += 1
                        if not pm.Mark.same_set(ms, ch.marks) or tk.marks_key(ms) != tk.marks_key(ch.marks) or \
                                tk.canon([m.to_json() for m in ms]) != tk.canon(mj):
                            self.violation("C05", "decode.not_equal", {"shape": "markset", "json": mj})
                            return
