"""R2: reference step map / mapping over explicit (start, old, new) triples in pre-image coordinates.

Written from the documented rule; an inverted map is represented by explicitly inverted triples,
never by a flag.  A reference mapping is a list of reference maps plus explicit mirror pairs.
"""


class RMap:
    __slots__ = ("t",)

    def __init__(self, triples):
        self.t = [tuple(x) for x in triples]

    def inverted(self):
        out = []
        diff = 0
        for (s, o, n) in self.t:
            out.append((s + diff, n, o))
            diff += n - o
        return RMap(out)

    def delta(self):
        return sum(n - o for (_, o, n) in self.t)

    def post_start(self, k):
        s = self.t[k][0]
        for (_, o, n) in self.t[:k]:
            s += n - o
        return s

    def detail(self, pos, assoc):
        """-> (newpos, flags dict, range_index or None, offset, recoverable)"""
        diff = 0
        for k, (s, o, n) in enumerate(self.t):
            if s > pos:
                break
            e = s + o
            if pos <= e:
                if o == 0:
                    side = assoc
                elif pos == s:
                    side = -1
                elif pos == e:
                    side = 1
                else:
                    side = assoc
                res = s + diff + (0 if side < 0 else n)
                before = s < pos <= e
                after = s <= pos < e
                flags = {
                    "deleted_before": before,
                    "deleted_after": after,
                    "deleted_across": before and after,
                    "deleted": before if assoc < 0 else after,
                }
                recoverable = pos != (s if assoc < 0 else e)
                return res, flags, k, pos - s, recoverable
            diff += n - o
        return pos + diff, {
            "deleted_before": False,
            "deleted_after": False,
            "deleted_across": False,
            "deleted": False,
        }, None, 0, False

    def map(self, pos, assoc=1):
        return self.detail(pos, assoc)[0]

    def ranges_old_new(self):
        """[(old_start, old_end, new_start, new_end)] as for_each should report them."""
        out = []
        diff = 0
        for (s, o, n) in self.t:
            out.append((s, s + o, s + diff, s + diff + n))
            diff += n - o
        return out

    def in_size(self):
        """smallest pre-image size on which the map is meaningful"""
        return max([s + o for (s, o, _) in self.t] + [0])

    def __repr__(self):
        return f"RMap{self.t}"


EMPTY = RMap([])


class RMapping:
    def __init__(self, maps=None, mirrors=None, from_=0, to=None):
        self.maps = list(maps or [])
        self.mirrors = list(mirrors or [])  # list of (a, b) pairs, as registered
        self.from_ = from_
        self.to = len(self.maps) if to is None else to

    def get_mirror(self, n):
        for (a, b) in self.mirrors:
            if a == n:
                return b
            if b == n:
                return a
        return None

    def slice(self, from_=0, to=None):
        return RMapping(self.maps, self.mirrors, from_, len(self.maps) if to is None else to)

    def copy(self):
        return RMapping(self.maps, self.mirrors, self.from_, self.to)

    def append_map(self, m, mirrors=None):
        self.maps.append(m)
        self.to = len(self.maps)
        if mirrors is not None:
            self.mirrors.append((len(self.maps) - 1, mirrors))

    def append_mapping(self, other):
        # documented: append all maps of `other` (entire list, as upstream does), keeping
        # mirror pairs that lie inside `other`, shifted.
        start = len(self.maps)
        for i, m in enumerate(other.maps):
            mirr = other.get_mirror(i)
            self.append_map(m, start + mirr if (mirr is not None and mirr < i) else None)

    def append_mapping_inverted(self, other):
        total = len(self.maps) + len(other.maps)
        for i in range(len(other.maps) - 1, -1, -1):
            mirr = other.get_mirror(i)
            self.append_map(
                other.maps[i].inverted(),
                total - mirr - 1 if (mirr is not None and mirr > i) else None,
            )

    def invert(self):
        inv = RMapping()
        inv.append_mapping_inverted(self)
        return inv

    def detail(self, pos, assoc=1):
        flags = {"deleted_before": False, "deleted_after": False, "deleted_across": False,
                 "deleted": False}
        i = self.from_
        while i < self.to:
            res, f, k, off, rec = self.maps[i].detail(pos, assoc)
            if rec:
                j = self.get_mirror(i)
                if j is not None and i < j < self.to:
                    pos = self.maps[j].post_start(k) + off
                    i = j + 1
                    continue
            for key in flags:
                flags[key] = flags[key] or f[key]
            pos = res
            i += 1
        return pos, flags

    def map(self, pos, assoc=1):
        return self.detail(pos, assoc)[0]

    def double_touch(self, pos, assoc=1):
        """True if, on its way through the mapping, the position touches two ranges of one map at
        once (adjacent ranges): there the documented first-match rule is ambiguous."""
        i = self.from_
        while i < self.to:
            m = self.maps[i]
            if sum(1 for (s, o, _) in m.t if s <= pos <= s + o) >= 2:
                return True
            res, f, k, off, rec = m.detail(pos, assoc)
            if rec:
                j = self.get_mirror(i)
                if j is not None and i < j < self.to:
                    pos = self.maps[j].post_start(k) + off
                    i = j + 1
                    continue
            pos = res
            i += 1
        return False

    def map_plain(self, pos, assoc=1):
        """left-to-right fold ignoring mirrors"""
        for i in range(self.from_, self.to):
            pos = self.maps[i].map(pos, assoc)
        return pos
