"""Own schema-validity walk for C01, so that the verdict does not rest on Node.check() alone.

Content expressions are still judged by the library's compiled matcher (C06 is not claimed, the
matcher is trusted and said so in the evidence); everything about marks is recomputed here from the
schema *spec*: which marks a parent allows, canonical order by declared rank, no duplicates, no two
marks of which one excludes the other.
"""


def _mark_names(schema):
    return list(schema.spec.get("marks", {}).keys()) if hasattr(schema.spec, "get") else []


def _expand(schema, names):
    out = set()
    marks = schema.spec.get("marks", {})
    for n in names:
        if n == "_":
            out.update(marks.keys())
        elif n in marks:
            out.add(n)
        else:
            for mname, mspec in marks.items():
                if n in (mspec.get("group") or "").split(" "):
                    out.add(mname)
    return out


def allowed_mark_names(ntype):
    """names of the mark types a node of this type allows on its children, from the spec"""
    schema = ntype.schema
    spec = ntype.spec
    expr = spec.get("marks")
    allm = set(_mark_names(schema))
    if expr == "_":
        return allm
    if expr:
        return _expand(schema, expr.split(" "))
    if expr == "":
        return set()
    # default: all marks for nodes with inline content, none otherwise
    return allm if ntype.inline_content else set()


def excludes(schema, a, b):
    """does mark type named a exclude mark type named b (from the spec)"""
    spec = schema.spec.get("marks", {}).get(a, {})
    ex = spec.get("excludes")
    if ex is None:
        return a == b
    if ex == "":
        return False
    return b in _expand(schema, ex.split(" "))


def problems(node, parent_allowed=None, path="doc"):
    """list of human-readable validity problems of `node` (empty = valid)"""
    out = []
    schema = node.type.schema
    order = _mark_names(schema)
    names = [m.type.name for m in node.marks]
    if parent_allowed is not None:
        for n in names:
            if n not in parent_allowed:
                out.append("%s: mark %s not allowed by parent" % (path, n))
    ranks = [order.index(n) if n in order else -1 for n in names]
    if ranks != sorted(ranks):
        out.append("%s: mark set not in rank order %r" % (path, names))
    for i, a in enumerate(node.marks):
        for j, b in enumerate(node.marks):
            if i < j:
                if a.type.name == b.type.name and dict(a.attrs) == dict(b.attrs):
                    out.append("%s: duplicate mark %s" % (path, a.type.name))
                if excludes(schema, a.type.name, b.type.name) or excludes(schema, b.type.name, a.type.name):
                    if not (a.type.name == b.type.name and dict(a.attrs) == dict(b.attrs)):
                        out.append("%s: marks %s and %s exclude each other" % (path, a.type.name, b.type.name))
    if node.type.name == "text":
        if not getattr(node, "text", ""):
            out.append("%s: empty text node" % path)
        return out
    m = node.type.content_match.match_fragment(node.content)
    if m is None or not m.valid_end:
        out.append("%s: content does not match %r" % (path, node.type.spec.get("content", "")))
    allowed = allowed_mark_names(node.type)
    for i, ch in enumerate(node.content.content):
        out.extend(problems(ch, allowed, "%s/%s[%d]" % (path, ch.type.name, i)))
        if len(out) > 5:
            break
    return out
