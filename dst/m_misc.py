"""C10 (immutability), C16 (merge), C17 (commutation after rebasing), C20 (diff)."""
import json
import sys

import core
import gen
import tokens as tk
from boot import pm, pt
from core import BudgetExceeded


def run_with_budget(fn, budget):
    """deterministic step budget: line events, no wall clock"""
    count = [0]

    def tracer(frame, event, arg):
        if event == "line":
            count[0] += 1
            if count[0] > budget:
                raise BudgetExceeded()
        return tracer

    old = sys.gettrace()
    sys.settrace(tracer)
    try:
        return fn(), count[0]
    finally:
        sys.settrace(old)


def touched(step):
    """conservative 'touched' span per DESIGN section 5/C17: (lo, hi) positions, or ('attr', name)"""
    if isinstance(step, (pt.ReplaceStep, pt.ReplaceAroundStep, pt.AddMarkStep, pt.RemoveMarkStep)):
        return (step.from_, step.to)
    if hasattr(step, "pos"):
        return (step.pos, step.pos + 1)
    if hasattr(step, "attr"):
        return ("docattr", step.attr)
    return None


def separated(ta, tb):
    if ta is None or tb is None:
        return False
    if ta[0] == "docattr" or tb[0] == "docattr":
        if ta[0] == "docattr" and tb[0] == "docattr":
            return ta[1] != tb[1]
        return True
    return ta[1] + 1 <= tb[0] or tb[1] + 1 <= ta[0]


def retypes_outside(step, D, after):
    """Does the step change the type of a node that holds *untouched* content adjacent to its
    range?  (a split that re-opens the tail as another type, a deletion that joins the tail of one
    textblock into a textblock of another type, a fitted insertion that does either).  Such a step
    changes what the untouched content may contain although its range does not cover it."""
    ps = gen.step_positions(step)
    if not ps:
        return False
    smap = step.get_map()
    try:
        for (p, assoc) in ((ps[0], -1), (ps[-1], 1)):
            a = D.resolve(p)
            b = after.resolve(smap.map(p, assoc))
            ca = [a.node(d).type.name for d in range(a.depth + 1)]
            cb = [b.node(d).type.name for d in range(b.depth + 1)]
            if ca != cb:
                return True
    except ValueError:
        return False
    return False


class MiscMonitors:
    # ================================================================== C10
    def c10_init(self):
        self.retained = []
        self.retained_ids = set()
        self.c10_tick = 0

    def snapshot_of(self, kind, obj):
        if kind == "doc":
            return ("doc", tk.own_digest(obj), None)
        if kind == "slice":
            return ("slice", (obj.open_start, obj.open_end, repr(tk.tokens(obj.content, "markup"))), None)
        if kind == "fragment":
            return ("fragment", repr(tk.tokens(obj, "markup")), len(obj.content))
        if kind == "step":
            parts = [type(obj).__name__]
            for f in ("from_", "to", "gap_from", "gap_to", "insert", "structure", "pos", "attr"):
                if hasattr(obj, f):
                    parts.append((f, getattr(obj, f)))
            if hasattr(obj, "value"):
                parts.append(tk.canon(obj.value))
            if hasattr(obj, "mark"):
                parts.append(tk.marks_key([obj.mark]))
            if hasattr(obj, "slice"):
                parts.append((obj.slice.open_start, obj.slice.open_end, repr(tk.tokens(obj.slice.content, "markup"))))
            return ("step", repr(parts), None)
        if kind == "stepmap":
            return ("stepmap", (tuple(obj.ranges), obj.inverted), None)
        if kind == "marks":
            return ("marks", tk.marks_key(obj), len(obj))
        if kind == "attrs":
            return ("attrs", tk.canon(obj), None)
        if kind == "transform":
            return ("transform", (len(obj.steps), [id(x) for x in obj.steps], [id(x) for x in obj.docs],
                                  [id(x) for x in obj.mapping.maps], list(obj.mapping.mirror or [])), None)
        if kind == "mapping":
            return ("mapping", ([id(x) for x in obj.maps], list(obj.mirror or []), obj.from_, obj.to), None)
        raise core.Internal("retain kind " + kind)

    def retain(self, kind, obj, pinned=False):
        if "C10" not in self.on:
            return
        if id(obj) in self.retained_ids:
            return
        self.retained_ids.add(id(obj))
        self.retained.append([kind, obj, self.snapshot_of(kind, obj), pinned])
        if kind == "doc":
            # JSON snapshot too: "still serialises to the JSON it serialised to before"
            self.retained[-1].append(tk.canon(obj.to_json()))
        self.probes["C10.retained:" + kind] += 1
        limit = self.opts.get("c10_max", 300)
        if len(self.retained) > limit:
            for i, e in enumerate(self.retained):
                if not e[3]:
                    # last look before the object leaves the registry
                    self.c10_one(e, {"k": "evict", "id": -1}, True)
                    self.retained_ids.discard(id(e[1]))
                    del self.retained[i]
                    break

    def c10_singletons(self):
        sim = self.sim
        self.retain("fragment", pm.Fragment.empty, True)
        self.retain("marks", pm.Mark.none, True)
        self.retain("slice", pm.Slice.empty, True)
        self.retain("stepmap", pt.StepMap.empty, True)
        for t in sim.schema.nodes.values():
            if t.default_attrs is not None:
                self.retain("attrs", t.default_attrs, True)
        for t in sim.schema.marks.values():
            if t.instance is not None:
                self.retain("attrs", t.instance.attrs, True)

    def c10_check(self, ev):
        self.c10_tick += 1
        period = self.sim.cfg["knobs"].get("c10_period", 1)
        if self.c10_tick % period:
            return
        deep = (self.c10_tick // period) % 5 == 0
        # a mutation stays visible, so every event re-examines the pinned singletons, the youngest
        # objects and a rotating third of the rest; everything is examined again at the end of the
        # run and before an object leaves the registry
        n = len(self.retained)
        phase = self.c10_tick % 3
        for i, e in enumerate(self.retained):
            if e[3] or i >= n - 25 or i % 3 == phase or ev.get("k") == "finish":
                if not self.c10_one(e, ev, deep):
                    return
        self.count("C10", ("ev", ev["k"], len(self.retained), self.sim.r3[-1]["digest"]),
                   nontrivial=len(self.retained) > 5,
                   sample={"event": ev["k"], "retained_objects": len(self.retained)})

    def c10_one(self, e, ev, deep):
        kind, obj, snap = e[0], e[1], e[2]
        now = self.snapshot_of(kind, obj)
        self.evals["C10"] += 1
        if kind in ("transform", "mapping"):
            ok = self.grew_only(snap[1], now[1])
            if ok:
                e[2] = now
        else:
            ok = now == snap
        if ok and deep and kind == "doc":
            ok = tk.canon(obj.to_json()) == e[4]
        if not ok:
            e[2] = now
            self.violation("C10", "mutated." + kind, {
                "shape": kind, "event": {k: v for k, v in ev.items() if k in ("k", "c", "id", "ops", "kind")},
                "before": str(snap)[:600], "after": str(now)[:600]})
            return False
        return True

    @staticmethod
    def grew_only(old, new):
        if old[0] > new[0] if isinstance(old[0], int) else False:
            return False
        # every list may only be extended, earlier elements identical
        for a, b in zip(old, new):
            if isinstance(a, list):
                if len(b) < len(a) or b[:len(a)] != a:
                    return False
        return True

    # ================================================================== C16
    def on_merge(self, client, s1, s2, m, base, after, site):
        if "C16" not in self.on or not self.is_core():
            return
        sim = self.sim
        k1, k2 = core.step_kind(s1), core.step_kind(s2)
        branch = k1
        if k1 == "replace":
            if s1.from_ + s1.slice.size == s2.from_ and not s1.slice.open_end and not s2.slice.open_start:
                branch = "replace.append"
            else:
                branch = "replace.prepend"
            if s1.slice.size + s2.slice.size == 0:
                branch += ".empty"
        self.probes["C16.merge:" + branch] += 1
        self.probes["C16.site:" + site] += 1
        det = {"shape": branch, "s1": self.describe_step(s1), "s2": self.describe_step(s2),
               "merged": self.describe_step(m), "base": base.to_json()}
        self.count("C16", (self.step_key(s1), self.step_key(s2), self.dg(base)), sample={
            "s1": self.describe_step(s1), "s2": self.describe_step(s2), "merged": self.describe_step(m),
            "base": str(base)[:120]})
        if not self.c16_one(m, base, after, det, "base"):
            return
        for (kind, key, L) in sim.live_docs():
            if L is base:
                continue
            r1 = self.apply_quiet(s1, L)
            if r1 is None or r1.failed or r1.doc is None:
                continue
            r2 = self.apply_quiet(s2, r1.doc)
            if r2 is None or r2.failed or r2.doc is None:
                continue
            self.probes["C16.other_docs"] += 1
            self.count("C16", (self.step_key(s1), self.step_key(s2), self.dg(L)))
            if not self.c16_one(m, L, r2.doc, dict(det, other=L, other_kind=kind), "other"):
                return

    def on_merge_raised(self, s1, s2, e):
        if "C16" in self.on and self.is_core():
            self.violation("C16", "merge.raised", {
                "shape": "%s|%s:%s" % (core.step_kind(s1), core.step_kind(s2), type(e).__name__),
                "s1": self.describe_step(s1), "s2": self.describe_step(s2), "error": repr(e)})

    def c16_one(self, m, doc, expect, det, which):
        sim = self.sim
        if "other" in det and not isinstance(det["other"], dict):
            det = dict(det)
            other = det.pop("other")
            det_full = lambda: dict(det, other=other.to_json())  # noqa: E731  (only on violation)
        else:
            det_full = lambda: det  # noqa: E731
        return self.c16_one_(m, doc, expect, det_full, which)

    def c16_one_(self, m, doc, expect, det_full, which):
        sim = self.sim
        sim.in_oracle += 1
        try:
            try:
                r = m.apply(doc)
            except ValueError as e:
                self.violation("C16", "merge.raised_on_" + which, dict(det_full(), error=repr(e)))
                return False
        finally:
            sim.in_oracle -= 1
        if r.failed or r.doc is None:
            self.violation("C16", "merge.fails_on_" + which, dict(det_full(), failed=r.failed))
            return False
        if not self.doc_equal(r.doc, expect) or not r.doc.eq(expect):
            self.violation("C16", "merge.differs_on_" + which, dict(det_full(), expected=expect.to_json(),
                                                                    got=r.doc.to_json()))
            return False
        if r.doc.content.size - doc.content.size != expect.content.size - doc.content.size:
            self.violation("C16", "merge.size_on_" + which, det_full())
            return False
        return True

    # ================================================================== C17
    def c17_pair(self, a, b, D, site):
        if "C17" not in self.on or not self.is_core():
            return
        ta, tb = touched(a), touched(b)
        if not separated(ta, tb):
            self.probes["C17.pairs_not_separated"] += 1
            return
        if not (gen.step_in_domain(a, D) and gen.step_in_domain(b, D)):
            return
        ra = self.apply_quiet(a, D)
        rb = self.apply_quiet(b, D)
        if ra is None or rb is None or ra.failed or rb.failed:
            self.probes["C17.pairs_not_both_applicable"] += 1
            return
        ka, kb = core.step_kind(a), core.step_kind(b)
        changed = not (self.doc_equal(ra.doc, D) or self.doc_equal(rb.doc, D))
        self.probes["C17.judged:%s|%s" % tuple(sorted([ka, kb]))] += 1
        self.probes["C17.site:" + site] += 1
        self.count("C17", (self.step_key(a), self.step_key(b), self.dg(D)), nontrivial=changed, sample={
            "doc": str(D)[:160], "a": self.describe_step(a), "b": self.describe_step(b)})
        det = {"shape": "%s|%s" % (ka, kb), "doc": D.to_json(), "a": self.describe_step(a),
               "b": self.describe_step(b), "site": site}
        try:
            b2 = b.map(a.get_map())
            a2 = a.map(b.get_map())
        except Exception as e:  # noqa: BLE001
            self.violation("C17", "rebase.map_raised", dict(det, error=repr(e)))
            return
        if a2 is None or b2 is None:
            self.violation("C17", "rebase.dropped", dict(det, a_mapped=a2 is not None, b_mapped=b2 is not None))
            return
        # the same rebase the way a client does it in batches: over a *window* of a longer mapping
        # (the other's map followed by later, unrelated maps) - must be the same rebase
        try:
            later = b2.get_map()
            win = pt.Mapping([a.get_map(), later, later.invert()]).slice(0, 1)
            b2w = b.map(win)
            win2 = pt.Mapping([later.invert(), b.get_map(), later]).slice(1, 2)
            a2w = a.map(win2)
        except Exception as e:  # noqa: BLE001
            self.violation("C17", "rebase.map_raised", dict(det, error=repr(e), over="mapping window"))
            return
        if a2w is None or b2w is None:
            self.violation("C17", "rebase.dropped", dict(det, over="mapping window",
                                                         a_mapped=a2w is not None, b_mapped=b2w is not None))
            return
        if tk.canon(b2w.to_json()) != tk.canon(b2.to_json()) or tk.canon(a2w.to_json()) != tk.canon(a2.to_json()):
            self.violation("C17", "rebase.window_differs", dict(
                det, b_over_map=self.describe_step(b2), b_over_window=self.describe_step(b2w),
                a_over_map=self.describe_step(a2), a_over_window=self.describe_step(a2w)))
            return
        sim = self.sim
        sim.in_oracle += 1
        try:
            try:
                r1 = b2.apply(ra.doc)
                r2 = a2.apply(rb.doc)
            except Exception as e:  # noqa: BLE001
                if isinstance(e, (core.Violation,)):
                    raise
                self.violation("C17", "rebase.apply_raised", dict(det, error=repr(e)))
                return
        finally:
            sim.in_oracle -= 1
        if r1.failed or r2.failed or r1.doc is None or r2.doc is None:
            if retypes_outside(a, D, ra.doc) or retypes_outside(b, D, rb.doc):
                det["shape"] = "retypes-outside-range"
            self.violation("C17", "rebase.apply_failed", dict(det, a_then_b=r1.failed, b_then_a=r2.failed,
                                                              a2=self.describe_step(a2), b2=self.describe_step(b2)))
            return
        if not self.doc_equal(r1.doc, r2.doc) or not r1.doc.eq(r2.doc):
            if retypes_outside(a, D, ra.doc) or retypes_outside(b, D, rb.doc):
                det["shape"] = "retypes-outside-range"
            self.violation("C17", "rebase.orders_differ", dict(det, a_then_b=r1.doc.to_json(),
                                                               b_then_a=r2.doc.to_json()))

    def c17_probe(self, ev):
        """pairs of unconfirmed first steps of two clients standing on the same confirmed version,
        and all recorded pairs with the same base"""
        sim = self.sim
        A = sim.clients.get(ev.get("a"))
        B = sim.clients.get(ev.get("b"))
        if not A or not B or not A.up or not B.up or not A.joined or not B.joined:
            return "skip"
        if A.version != B.version or not A.unconfirmed or not B.unconfirmed:
            return "nopair"
        Da, Db = A.unconfirmed[0].doc_before, B.unconfirmed[0].doc_before
        if not self.doc_equal(Da, Db):
            return "different-base"
        if not (A.unconfirmed[0].native and B.unconfirmed[0].native):
            self.probes["C17.pairs_not_native"] += 1
            return "not-native"
        self.guard("C17", self.c17_pair, A.unconfirmed[0].step, B.unconfirmed[0].step, Da, "probe")
        return "judged"

    def c17_round(self, ev):
        """synchronous round: several editors issue one command each against the same document
        (the authority's current one); every pair of first steps is a concurrency point"""
        sim = self.sim
        if "C17" not in self.on or not self.is_core():
            return "off"
        D = sim.lookup_target(tuple(ev.get("base", ["auth", 0])))
        if D is None:
            return "nobase"
        firsts = []
        for op in ev["ops"]:
            tr = pt.Transform(D)
            try:
                with core.call_budget(300000):
                    gen.apply_op(tr, op)
            except (gen.Refused, core.BudgetExceeded, Exception):  # noqa: BLE001
                continue
            if tr.steps:
                firsts.append(tr.steps[0])
        n = 0
        for i in range(len(firsts)):
            for j in range(i + 1, len(firsts)):
                self.guard("C17", self.c17_pair, firsts[i], firsts[j], D, "round")
                n += 1
        # three editors: the third step is rebased over a step that was itself rebased, i.e. the pair
        # (rebased a, rebased c) on the document b produced - both delivery orders of a and b
        t = 0
        for i in range(len(firsts)):
            for j in range(i + 1, len(firsts)):
                for k in range(len(firsts)):
                    if k != i and k != j and t < 6:
                        t += 1
                        self.guard("C17", self.c17_triple, firsts[i], firsts[j], firsts[k], D, "round3")
        return "pairs:%d" % n

    def c17_triple(self, a, b, c, D, site):
        """a, b, c made against D, pairwise separated, all applicable.  Order 1: a, b/a, c/a/(b/a);
        order 2: b, a/b, c/b/(a/b).  The pairs (b/a, c/a) on a(D) and (a/b, c/b) on b(D) are again
        separated pairs of applicable steps, so C17 asks that nothing is dropped, everything applies
        and the two results are equal.  What this adds to the pair check: the position map *of a
        rebased step* is used for rebasing."""
        if not self.is_core():
            return
        steps = (a, b, c)
        tt = [touched(x) for x in steps]
        if not (separated(tt[0], tt[1]) and separated(tt[0], tt[2]) and separated(tt[1], tt[2])):
            return
        if not all(gen.step_in_domain(x, D) for x in steps):
            return
        rs = [self.apply_quiet(x, D) for x in steps]
        if any(r is None or r.failed for r in rs):
            return
        if any(retypes_outside(x, D, r.doc) for x, r in zip(steps, rs)):
            self.probes["C17.triples_retyping_not_judged"] += 1
            return
        self.probes["C17.triples_judged"] += 1
        kinds = "|".join(core.step_kind(x) for x in steps)
        det = {"shape": kinds, "doc": D.to_json(), "a": self.describe_step(a), "b": self.describe_step(b),
               "c": self.describe_step(c), "site": site}
        self.count("C17", ("t", self.step_key(a), self.step_key(b), self.step_key(c), self.dg(D)), nontrivial=True)
        sim = self.sim

        def order(x, y, rx):
            """x first, then y rebased over x, then c rebased over x and over (y rebased over x)"""
            y1 = y.map(x.get_map())
            c1 = c.map(x.get_map())
            if y1 is None or c1 is None:
                return "dropped", None
            r1 = y1.apply(rx.doc)
            if r1.failed or r1.doc is None:
                return "failed:%s" % r1.failed, None
            c2 = c1.map(y1.get_map())
            if c2 is None:
                return "dropped", None
            r2 = c2.apply(r1.doc)
            if r2.failed or r2.doc is None:
                return "failed:%s" % r2.failed, None
            return None, r2.doc

        sim.in_oracle += 1
        try:
            try:
                e1, d1 = order(a, b, rs[0])
                e2, d2 = order(b, a, rs[1])
            except core.Violation:
                raise
            except Exception as e:  # noqa: BLE001
                self.violation("C17", "rebase3.raised", dict(det, error=repr(e)))
                return
        finally:
            sim.in_oracle -= 1
        if e1 or e2:
            name = "rebase3.dropped" if "dropped" in (e1, e2) else "rebase3.apply_failed"
            self.violation("C17", name, dict(det, a_b_c=e1, b_a_c=e2))
            return
        if not self.doc_equal(d1, d2) or not d1.eq(d2):
            self.violation("C17", "rebase3.orders_differ", dict(det, a_b_c=d1.to_json(), b_a_c=d2.to_json()))

    # ================================================================== C20
    def on_pair(self, a, b, site):
        if "C20" not in self.on:
            return
        fa, fb = a.content, b.content
        ta = tk.tokens(fa, "markup")
        tb = tk.tokens(fb, "markup")
        equal = ta == tb
        if equal:
            exp_start, exp_end = None, None
        else:
            exp_start = tk.common_prefix(ta, tb)
            k = tk.common_suffix(ta, tb)
            exp_end = {"a": len(ta) - k, "b": len(tb) - k}
        def shares(x, y, depth=0):
            if x is y:
                return True
            if depth > 6:
                return False
            return any(shares(p, q, depth + 1) for p, q in zip(x.content.content, y.content.content))

        shared = a is not b and any(shares(x, y) for x, y in zip(fa.content, fb.content))
        self.probes["C20.site:" + site] += 1
        if shared:
            self.probes["C20.pairs_sharing_children"] += 1
        if equal:
            self.probes["C20.equal_pairs"] += 1
        nonbmp = any(len(t) > 1 and t[0] == "t" and 0xD800 <= t[1] <= 0xDFFF for t in ta[:400])
        if nonbmp:
            self.probes["C20.pairs_with_astral_text"] += 1
        self.count("C20", (self.dg(a), self.dg(b)), nontrivial=not equal, sample={
            "a": str(a)[:140], "b": str(b)[:140], "start": exp_start, "end": exp_end, "site": site})
        budget = 4000 + 400 * (len(ta) + len(tb))
        det = {"shape": "", "a": a.to_json(), "b": b.to_json(), "site": site, "shares_children": shared}
        for name, fn, exp in (("start", lambda: fa.find_diff_start(fb), exp_start),
                              ("end", lambda: fa.find_diff_end(fb), exp_end)):
            try:
                got, used = run_with_budget(fn, budget)
            except BudgetExceeded:
                self.violation("C20", "diff_%s.no_termination" % name, dict(
                    det, shape="budget", budget=budget))
                continue
            except core.Violation:
                raise
            except Exception as e:  # noqa: BLE001
                self.violation("C20", "diff_%s.raised" % name, dict(det, shape=type(e).__name__, error=repr(e)))
                continue
            if got is not None and name == "end":
                got = {"a": got["a"], "b": got["b"]}
            if got != exp:
                self.violation("C20", "diff_%s.wrong" % name, dict(
                    det, shape="astral" if nonbmp else "bmp", expected=exp, got=got))
        # the same fragment against a series of short-lived, independently built comparands (a view
        # diffing candidate documents): each is dropped before the next one is built, so the answers
        # must not depend on anything remembered from the previous comparison
        self.c20_tick = getattr(self, "c20_tick", 0) + 1
        if self.c20_tick % 3 == 0 and len(ta) + len(tb) < 500:
            schema = a.type.schema
            jb, ja = fb.to_json(), fa.to_json()
            plan = ((jb, exp_start, exp_end), (ja, None, None), (jb, exp_start, exp_end))
            for (js, e_start, e_end) in plan:
                try:
                    tmp = pm.Fragment.from_json(schema, js)
                    g1 = fa.find_diff_start(tmp)
                    g2 = fa.find_diff_end(tmp)
                    del tmp
                except core.Violation:
                    raise
                except Exception as e:  # noqa: BLE001
                    self.violation("C20", "diff_series.raised", dict(det, shape=type(e).__name__, error=repr(e)))
                    break
                if g2 is not None:
                    g2 = {"a": g2["a"], "b": g2["b"]}
                self.probes["C20.transient_comparands"] += 1
                if g1 != e_start or g2 != e_end:
                    self.violation("C20", "diff_series.wrong", dict(
                        det, shape="astral" if nonbmp else "bmp", comparand=js,
                        expected=[e_start, e_end], got=[g1, g2]))
                    break

    # ================================================================== dispatch hooks
    def on_rebased(self, client, tr, rest, remote, new_unc, judged, base_version, pre_doc, conf_after,
                   tainted):
        sim = self.sim
        self.guard("C04", self.c04_rebased, client, tr, new_unc, conf_after)
        self.guard("C08", self.c08_rebase, client, tr, rest, remote, new_unc, judged, pre_doc, conf_after)
        if rest and remote:
            # C17's quantifier: steps emitted by high-level operations on this very document
            if rest[0].native and sim.r3[base_version + 1].get("native"):
                self.guard("C17", self.c17_pair, rest[0].step, remote[0], rest[0].doc_before, "rebase")
            else:
                self.probes["C17.pairs_not_native"] += 1
        self.on_transform(client, tr, None, [{"op": "rebase"}], exact_undo=False)
        self.guard("C20", self.on_pair, pre_doc, tr.doc, "rebase")

    def on_remote_applied(self, client, v0, v1, tr):
        pass

    def on_confirmed(self, client, v0, v1):
        pass
