"""Swarm configuration: everything about one run is derived from its seed (and the check's profile)."""
import random

import gen
import schemas
import sim as simmod

# per-property workload / fault bias
PROFILES = {
    "C01": {"schemas": schemas.NAMES, "byz": (0.5, 1.0), "faults": 0.8, "tenant": True,
            "mix": {"set_block_type": 10, "set_node_markup": 6, "wrap": 5, "lift": 5, "insert_node": 8,
                    "add_mark": 6, "remove_mark": 3, "type": 8, "raw_step": 6, "add_node_mark": 3,
                    "paste": 5, "paste_range": 4, "split": 4, "join": 3, "delete": 4, "delete_range": 3,
                    "set_node_attribute": 3, "backspace": 3, "set_doc_attribute": 1, "mark_any": 6,
                    "mark_sweep": 2}},
    "C03": {"schemas": schemas.NAMES, "byz": (0.0, 0.3), "faults": 0.5, "mix": None, "tenant": True},
    # history clauses are asserted on the core schemas only (monbase.CORE_SCHEMAS); docmarks and comment
    # are here for the "under every schema" single-step clauses
    "C04": {"schemas": sorted(["basic", "list", "title", "headbody", "iso", "table", "strict"] * 2) + ["docmarks", "comment"],
            "byz": (0.0, 0.0), "faults": 1.0, "mix": None, "crash": True, "journal_p": 0.5},
    "C05": {"schemas": schemas.NAMES, "byz": (0.0, 0.2), "faults": 0.6, "tenant": True,
            "mix": {"set_node_attribute": 8, "set_doc_attribute": 8, "paste": 8, "paste_range": 5,
                    "insert_node": 6, "add_mark": 6, "remove_mark": 3, "add_node_mark": 4,
                    "remove_node_mark": 2, "set_block_type": 4, "wrap": 3, "lift": 3, "split": 3,
                    "type": 6, "raw_step": 6, "set_node_markup": 4, "delete": 3, "join": 2}},
    "C08": {"schemas": schemas.NAMES, "byz": (0.0, 0.0), "faults": 0.5, "mix": None, "tenant": True,
            "translate": 0.6, "undo_p": 0.2},
    "C10": {"schemas": schemas.NAMES, "byz": (0.0, 0.3), "faults": 0.5, "clipboard": 0.1, "tenant": True,
            "mix": {"add_mark": 10, "remove_mark": 6, "mark_run": 8, "mark_sweep": 10, "raw_step": 6, "type": 8, "paste": 5,
                    "paste_range": 3, "insert_node": 3, "split": 3, "join": 2, "lift": 2, "wrap": 2,
                    "set_block_type": 3, "set_node_markup": 2, "add_node_mark": 3, "remove_node_mark": 1,
                    "set_node_attribute": 4, "set_doc_attribute": 2, "delete": 4, "backspace": 3,
                    "delete_range": 2}},
    "C16": {"schemas": sorted(["basic", "list", "title", "headbody", "iso", "table", "strict"]),
            "byz": (0.0, 0.0), "faults": 0.4, "merge": True,
            "mix": {"type": 14, "type_run": 10, "backspace": 10, "delete": 5, "paste": 8, "add_mark": 10,
                    "remove_mark": 8, "mark_run": 10, "seam_pair": 8, "insert_node": 3, "split": 4, "join": 7, "set_block_type": 2, "raw_step": 4,
                    "paste_range": 3}},
    "C17": {"schemas": sorted(["basic", "list", "title", "headbody", "iso", "table", "strict"]),
            "byz": (0.0, 0.0), "faults": 0.3, "mix": None, "probe17": True, "spread": True},
    "C20": {"schemas": schemas.NAMES, "byz": (0.0, 0.3), "faults": 0.4, "mix": None, "reload": 0.15, "tenant": True},
}


def make_cfg(seed, prop, tier):
    rng = random.Random((seed * 1000003) ^ 0x5EED)
    prof = PROFILES[prop]
    schema_name = rng.choice(prof["schemas"])
    schema = schemas.get(schema_name)
    thorough = tier == "thorough"
    n_clients = rng.randint(2, 5 if thorough else 4)
    doc0 = gen.rand_doc(rng, schema, maxdepth=rng.choice([2, 3, 3, 4]))
    mix = dict(gen.DEFAULT_MIX)
    if prof.get("mix") and rng.random() < 0.75:
        mix = dict(prof["mix"])
    # swarm: drop a random subset of op kinds
    for k in list(mix):
        if rng.random() < 0.15 and len(mix) > 4:
            del mix[k]
    if prop == "C04" and schema_name in ("docmarks", "comment"):
        # these two configurations are in the C04 mix for the single-step clauses (node marks under
        # schemas with interacting mark types)
        mix.update({"node_mark_stack": 10, "add_node_mark": 6, "remove_node_mark": 5, "insert_node": 6})
    knobs = dict(simmod.DEFAULT_KNOBS)
    knobs["merge"] = bool(prof.get("merge")) and rng.random() < 0.8 or rng.random() < 0.25
    knobs["push_batch"] = rng.choice([0, 0, 1, 2, 4])
    knobs["pull_batch"] = rng.choice([0, 0, 0, 3])
    knobs["snap_every"] = rng.choice([0, 3, 7])
    knobs["journal"] = rng.random() < prof.get("journal_p", 0.25)
    knobs["hist_len"] = rng.choice([5, 20, 60])
    knobs["c10_period"] = 1 if prop == "C10" else 4
    faults = dict(simmod.DEFAULT_FAULTS)
    faulty = rng.random() < prof["faults"]
    enabled = set()
    if faulty:
        for name in ("drop", "dup", "reorder", "partition", "crash_client", "crash_auth", "stall"):
            if rng.random() < 0.5:
                enabled.add(name)
        if prof.get("crash"):
            enabled.add(rng.choice(["crash_client", "crash_auth"]))
    faults["drop"] = rng.choice([0.03, 0.1, 0.2]) if "drop" in enabled else 0.0
    faults["dup"] = rng.choice([0.05, 0.15]) if "dup" in enabled else 0.0
    faults["reorder"] = rng.choice([0.1, 0.4]) if "reorder" in enabled else 0.0
    faults["partition"] = rng.choice([0.05, 0.15]) if "partition" in enabled else 0.0
    faults["crash_client"] = rng.choice([0.1, 0.3]) if "crash_client" in enabled else 0.0
    faults["crash_auth"] = rng.choice([0.05, 0.2]) if "crash_auth" in enabled else 0.0
    faults["stall"] = rng.choice([0.05, 0.15]) if "stall" in enabled else 0.0
    faults["torn"] = rng.choice([0.0, 0.5]) if enabled & {"crash_client", "crash_auth"} else 0.0
    lo, hi = prof["byz"]
    faults["byz"] = rng.uniform(lo, hi) if hi > 0 and rng.random() < 0.8 else 0.0
    faults["flush"] = rng.choice([0.0, 0.1, 0.3])
    faults["reload"] = prof.get("reload", 0.0) or rng.choice([0.0, 0.0, 0.05])
    faults["clipboard"] = prof.get("clipboard", 0.0) or rng.choice([0.0, 0.0, 0.03])
    faults["translate"] = prof.get("translate", 0.0) or rng.choice([0.0, 0.1])
    faults["lat"] = rng.choice([[1, 5], [1, 20], [5, 60], [1, 150]])
    max_events = rng.choice([40, 60, 90]) if not thorough else rng.choice([80, 150, 250])
    cfg = {
        "prop": prop,
        "schema": schema_name,
        "n_clients": n_clients,
        "init_doc": doc0.to_json(),
        "mix": mix,
        "knobs": knobs,
        "faults": faults,
        "max_events": max_events,
        "horizon": 100000,
        "think": rng.choice([[2, 20], [5, 60], [20, 200]]),
        "push_p": rng.choice([0.3, 0.6, 0.9]),
        "retry_ms": rng.choice([60, 150, 400]),
        "undo_p": prof.get("undo_p", rng.choice([0.0, 0.05, 0.12])),
        "pull_p": rng.choice([0.02, 0.08]),
        "anchor_p": 0.03,
        "inspect_p": 0.25 if prop == "C10" else rng.choice([0.0, 0.05]),
        "move_p": 0.6 if prof.get("spread") else rng.choice([0.2, 0.4]),
        "probe17": bool(prof.get("probe17")),
        # bounded-liveness diagnostic: a quarter of the runs continue after the last fault until
        # every client has converged on the authority's document (or a step cap is hit)
        "drain": rng.random() < 0.25,
        "drain_events": (120 if prop == "C08" else 300) if prop in ("C08", "C10") else 1500,
        "fault_kinds": sorted(enabled),
    }
    # second tenant of the same process (a document under a twin schema: same names, other mark
    # order / permissions / defaults).  Drawn from a PRNG of its own so that the rest of the
    # configuration of a seed does not depend on it.
    rng2 = random.Random((seed * 7919) ^ 0x7E4A47)
    cfg["tenant_p"] = 0.0
    if prof.get("tenant") and rng2.random() < 0.6:
        cfg["tenant_p"] = rng2.choice([0.08, 0.15, 0.25])
        cfg["tenant_doc"] = gen.rand_doc(rng2, schemas.twin(schema_name), maxdepth=rng2.choice([3, 3, 4])).to_json()
    if prop == "C08":
        cfg["size_cap"] = 150  # every mapping law is evaluated at every position of every history
    # size knob of the C08 mix: one run in twenty also handles one very long document
    cfg["bigdoc"] = bool(prop == "C08" and rng2.random() < 0.05)
    # faults stop for the last quarter of virtual activity: convergence is then a diagnostic
    cfg["quiet_after_events"] = int(max_events * 0.75)
    return cfg
