"""All monitors composed.  A check enables the subset for its property."""
import core
from m_apply import ApplyMonitors
from m_map import MapMonitors
from m_misc import MiscMonitors
from m_wire import WireMonitors
from monbase import MonBase

ALL = ["C01", "C03", "C04", "C05", "C08", "C10", "C16", "C17", "C20"]


class Monitors(ApplyMonitors, WireMonitors, MapMonitors, MiscMonitors, MonBase):
    def __init__(self, on, known=None, opts=None):
        MonBase.__init__(self, on, known, opts)
        self.c05_init()
        self.c10_init()
        self.ticks = 0

    def on_start(self, doc0):
        self.c05_registry()
        if "C10" in self.on:
            self.c10_singletons()
            self.retain("doc", doc0, True)

    def after_event(self, ev, out):
        sim = self.sim
        self.ticks += 1
        if "C10" in self.on:
            self.guard("C10", self.c10_check, ev)
        if "C20" in self.on and self.ticks % 4 == 0 and sim.auth.up:
            for cid in sorted(sim.clients):
                c = sim.clients[cid]
                if c.up and c.joined and c.doc is not None and c.doc is not sim.auth.doc:
                    self.guard("C20", self.on_pair, c.doc, sim.auth.doc, "client-vs-authority")
                    break
        if "C20" in self.on and ev["k"] == "reload" and out == "ok":
            c = sim.clients[ev["c"]]
            self.on_pair(c.doc, c.doc, "identical")

    def on_probe(self, ev):
        if ev.get("what") == "c17pair":
            return self.c17_probe(ev)
        if ev.get("what") == "c17round":
            return self.c17_round(ev)
        if ev.get("what") == "replay_from_zero":
            return self.replay_from_zero(ev)
        return "noprobe"

    def on_finish(self):
        if "C10" in self.on:
            self.c10_tick = -1
            self.c10_check({"k": "finish", "id": -1})
