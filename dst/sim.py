"""Deterministic simulator: a collab deployment (authority + clients + JSON wire + durable store)
around the real prosemirror-py step/map/transform/model code, in one process, single-threaded.

* generate mode: one `random.Random(seed)` decides the swarm configuration, every command and its
  arguments, latencies and fault instants.  Every executed event is recorded in concrete,
  PRNG-free form.
* replay mode: the recorded event list is executed with no PRNG at all.  An event that is not
  enabled is a no-op, so every subsequence of a trace is a valid trace (=> shrinking).

Only the protocol glue here is a stub; all document/step/map work is done by repo code.
"""
import heapq
import json
import random
import zlib
from collections import Counter

import core
import gen
import schemas
import tokens as tk
from boot import pm, pt
from core import Internal, SimCrash, Violation

Mapping, StepMap, Step, Transform = pt.Mapping, pt.StepMap, pt.Step, pt.Transform
Slice, Fragment, Node = pm.Slice, pm.Fragment, pm.Node

COMMAND_CALL_BUDGET = 300000

# any exception raised by library code inside a workload command is "command refused" for the
# stub (the apply seam has already judged it if it is C01's business); harness bugs hidden this way
# show up as refused:<Type> counters in the evidence
REFUSAL_TYPES = (Exception,)


# =============================================================================== store

class Store:
    """Durable byte store of one party: named append-only files of framed records.
    A record is durable once synced; a crash drops (or tears) the unsynced suffix."""

    def __init__(self):
        self.files = {}  # name -> list[[bytes, synced]]

    @staticmethod
    def frame(data):
        return len(data).to_bytes(4, "big") + zlib.crc32(data).to_bytes(4, "big") + data

    @staticmethod
    def unframe(raw):
        if len(raw) < 8:
            return None
        n = int.from_bytes(raw[:4], "big")
        crc = int.from_bytes(raw[4:8], "big")
        data = raw[8:]
        if len(data) != n or zlib.crc32(data) != crc:
            return None
        return data

    def append(self, name, data):
        self.files.setdefault(name, []).append([self.frame(data), False])

    def sync(self, name):
        for rec in self.files.get(name, []):
            rec[1] = True

    def replace(self, name, datas):
        """atomic rewrite (write-new-then-rename), durable when it returns"""
        self.files[name] = [[self.frame(d), True] for d in datas]

    def crash(self, torn):
        """Drop unsynced records; if `torn`, the first unsynced record of each file survives as a
        truncated (unreadable) frame.  Returns counts."""
        lost = 0
        tornn = 0
        for name, recs in self.files.items():
            keep = []
            first = True
            for raw, synced in recs:
                if synced:
                    keep.append([raw, True])
                else:
                    lost += 1
                    if torn and first:
                        keep.append([raw[: max(1, len(raw) // 2)], True])
                        tornn += 1
                    first = False
            self.files[name] = keep
        return lost, tornn

    def read(self, name):
        """intact records, stopping at the first damaged one (append-only log semantics)"""
        out = []
        for raw, _ in self.files.get(name, []):
            d = self.unframe(raw)
            if d is None:
                break
            out.append(d)
        return out

    def truncate_to_intact(self, name):
        keep = []
        for rec in self.files.get(name, []):
            if self.unframe(rec[0]) is None:
                break
            keep.append(rec)
        self.files[name] = keep

    def read_all_intact(self, name):
        out = []
        for raw, _ in self.files.get(name, []):
            d = self.unframe(raw)
            if d is not None:
                out.append(d)
        return out


def dumps(obj):
    return json.dumps(obj, ensure_ascii=False, separators=(",", ":")).encode("utf-8")


def loads(b):
    return json.loads(b.decode("utf-8"))


# =============================================================================== transform seam

class SimTransform(Transform):
    """Transform subclass: overrides only add_step, to place crash points between the steps of
    one high-level operation.  maybe_step/step/all operations are the library's."""

    def __init__(self, doc, sim, party, site):
        super().__init__(doc)
        self._sim = sim
        self._party = party
        self._site = site

    def add_step(self, step, doc):
        if self._party is not None:
            self._party.hit(self._site + ".add_step")
        super().add_step(step, doc)


class _Failed:
    failed = "raised ValueError"
    doc = None


def safe_apply(step, doc):
    """stub-side application: any exception is a failed application for the stub (the apply seam
    has already judged it if it is C01's business)"""
    try:
        return step.apply(doc)
    except Exception:  # noqa: BLE001
        return _Failed()


def safe_maybe_step(tr, step):
    try:
        return tr.maybe_step(step)
    except Exception:  # noqa: BLE001
        return _Failed()


def safe_map(sim, step, mapping):
    """Step.map in the stub: an exception means 'could not be rebased' for the stub"""
    try:
        return step.map(mapping)
    except Exception as e:  # noqa: BLE001
        sim.stats["map_raised:" + type(e).__name__] += 1
        return None


def safe_invert(sim, step, doc):
    """Step.invert of a step that has just applied to `doc`.  An exception here is C04's business
    (reported through the monitor); for the stub the command/rebase is then abandoned."""
    try:
        return step.invert(doc)
    except Exception as e:  # noqa: BLE001
        sim.stats["invert_raised:" + type(e).__name__] += 1
        sim.mon.on_invert_raised(step, doc, e)
        return None


class Reb:
    """An unconfirmed local step (prosemirror-collab's Rebaseable) plus the documents around it."""
    __slots__ = ("step", "inverted", "doc_before", "doc_after", "tid", "rebased_mark", "sent", "native")

    def __init__(self, step, inverted, doc_before, doc_after, tid, rebased_mark=False):
        self.step = step
        self.inverted = inverted
        self.doc_before = doc_before
        self.doc_after = doc_after
        self.tid = tid
        self.rebased_mark = rebased_mark
        self.sent = False  # already on the wire: must keep its identity (no outbox merging)
        # emitted by a high-level operation on doc_before itself (not rebased / remapped / raw)
        self.native = False


class Party:
    def __init__(self, sim, name):
        self.sim = sim
        self.name = name
        self.up = True
        self.armed = {}
        self.store = Store()

    def hit(self, site):
        """crash point"""
        self.sim.stats["site:" + site] += 1
        n = self.armed.get(site)
        if n is None:
            return
        if n <= 0:
            del self.armed[site]
            raise SimCrash(self.name, site)
        self.armed[site] = n - 1


# =============================================================================== authority

class Authority(Party):
    def __init__(self, sim, doc):
        super().__init__(sim, "auth")
        self.schema = doc.type.schema
        self.doc = doc
        self.version = 0
        self.steps = []
        self.cids = []
        self.maps = []
        self.connected = set()
        self.store.replace("snap", [dumps({"version": 0, "doc": doc.to_json()})])
        self.sim.mon.on_wire("doc", doc, self.store.read("snap")[-1], "auth.snapshot", key="doc")

    # ---- volatile state loss
    def crash(self, torn):
        self.up = False
        self.doc = None
        self.steps = None
        self.cids = None
        self.maps = None
        self.version = None
        self.armed.clear()
        return self.store.crash(torn)

    def recover(self):
        sim = self.sim
        snaps = [loads(d) for d in self.store.read_all_intact("snap")]
        if not snaps:
            raise Internal("authority has no intact snapshot")
        snap = max(snaps, key=lambda s: s["version"])
        sim.ctx_site = "auth.recover"
        doc = Node.from_json(self.schema, snap["doc"])
        version = snap["version"]
        sim.mon.on_recover_version("auth", version, doc)
        self.store.truncate_to_intact("log")
        recs = [loads(d) for d in self.store.read("log")]
        # the full log is kept, so steps/maps for the translation service are rebuilt from 0
        steps, cids, maps = [], [], []
        cur = None
        for rec in recs:
            st = Step.from_json(self.schema, rec["step"])
            steps.append(st)
            cids.append(rec["cid"])
            maps.append(st.get_map())
        if len(recs) < version:
            raise Internal("log shorter than snapshot version")
        for i in range(version, len(recs)):
            res = safe_apply(steps[i], doc)
            if res.failed or res.doc is None:
                sim.mon.violation_if("C04", "replay.log_step_failed",
                                     {"version": i, "failed": res.failed, "step": recs[i]["step"]})
                raise Internal("log replay failed but C04 not monitored")
            doc = res.doc
            sim.mon.on_recover_version("auth", i + 1, doc)
        self.doc = doc
        self.version = len(recs)
        self.steps, self.cids, self.maps = steps, cids, maps
        # R3 may be shorter than the durable log (crash between sync and in-memory update)
        sim.r3_extend(self, recs)
        self.up = True

    # ---- message handlers
    def on_push(self, msg):
        sim = self.sim
        p = loads(msg["payload"])
        cid = p["cid"]
        dest = cid.split("#")[0]
        if p["version"] != self.version:
            if 0 <= p["version"] < self.version:
                self.send_steps(dest, p["version"])
            else:
                sim.send("auth", dest, "resync", {})
            sim.stats["auth.push_rejected"] += 1
            return
        doc = self.doc
        decoded = []
        for i, sj in enumerate(p["steps"]):
            sim.ctx_site = "auth.apply"
            st = Step.from_json(self.schema, sj)
            orig = (msg.get("orig") or [None] * len(p["steps"]))[i]
            sim.mon.on_step_decoded(orig, st, sj, doc, "auth.push")
            res = safe_apply(st, doc)
            if res.failed or res.doc is None:
                sim.stats["auth.push_step_failed"] += 1
                sim.diag("authority_rejects_step_at_matching_version")
                sim.send("auth", dest, "resync", {})
                return
            doc = res.doc
            decoded.append((st, doc))
        self.hit("auth.after_apply")
        base = self.version
        for i, (st, _) in enumerate(decoded):
            self.store.append("log", dumps({"v": base + i, "step": p["steps"][i], "cid": cid}))
            if i == 0:
                self.hit("auth.after_append")
        self.store.sync("log")
        self.hit("auth.after_sync")
        for st, d in decoded:
            self.steps.append(st)
            self.cids.append(cid)
            self.maps.append(st.get_map())
            self.version += 1
            self.doc = d
            sim.r3_append(self.version, d, st, cid)
            nat = msg.get("native")
            sim.r3[-1]["native"] = bool(nat and len(self.steps) - base - 1 < len(nat) and nat[len(self.steps) - base - 1])
        sim.stats["auth.accepted_steps"] += len(decoded)
        k = sim.cfg["knobs"]["snap_every"]
        if k and (self.version // k) != (base // k):
            self.snapshot()
        for c in sorted(self.connected):
            self.send_steps(c, base)

    def snapshot(self):
        data = dumps({"version": self.version, "doc": self.doc.to_json()})
        self.sim.mon.on_wire("doc", self.doc, data, "auth.snapshot", key="doc")
        self.store.append("snap", data)
        self.hit("auth.snapshot")
        self.store.sync("snap")
        self.sim.stats["auth.snapshots"] += 1

    def send_steps(self, cid, since):
        sim = self.sim
        batch = sim.cfg["knobs"]["pull_batch"]
        upto = min(self.version, since + batch) if batch else self.version
        steps = self.steps[since:upto]
        payload = {"from": since, "steps": [s.to_json() for s in steps], "cids": self.cids[since:upto]}
        sim.send("auth", cid, "steps", payload, orig=list(steps))

    def on_pull(self, msg):
        p = loads(msg["payload"])
        self.connected.add(p["cid"])
        if 0 <= p["version"] <= self.version:
            self.send_steps(p["cid"], p["version"])
        else:
            self.sim.send("auth", p["cid"], "resync", {})

    def on_join(self, msg):
        p = loads(msg["payload"])
        self.connected.add(p["cid"])
        payload = {"version": self.version, "doc": self.doc.to_json()}
        self.sim.send("auth", p["cid"], "snapshot", payload, orig=[self.doc])


# =============================================================================== undo history

class History:
    """Linear lineage of the client's current document: maps of every step applied (own and
    remote) in order, with mirror pairs registered by undo.  `conf_len` maps belong to the
    confirmed part, the rest to the unconfirmed tail."""

    def __init__(self):
        self.maps = []
        self.rmaps = []
        self.mirrors = []  # flat [a, b, a, b...]
        self.items = []  # dict(idx, inv, tid, undoable)
        self.conf_len = 0
        self.base = 0  # number of maps trimmed from the front (indices are absolute - base)

    def add(self, smap, rmap, inv=None, tid=None, undoable=True, mirror=None):
        self.maps.append(smap)
        self.rmaps.append(rmap)
        idx = len(self.maps) - 1
        if inv is not None:
            self.items.append({"idx": idx, "inv": inv, "tid": tid, "undoable": undoable})
        if mirror is not None:
            self.mirrors.extend([mirror, idx])
        return idx

    def truncate(self, n):
        del self.maps[n:]
        del self.rmaps[n:]
        self.items = [it for it in self.items if it["idx"] < n]
        mm = []
        for i in range(0, len(self.mirrors), 2):
            if self.mirrors[i] < n and self.mirrors[i + 1] < n:
                mm.extend(self.mirrors[i:i + 2])
        self.mirrors = mm

    def trim(self, keep):
        """forget the oldest maps (retained-history knob)"""
        drop = len(self.maps) - keep
        if drop <= 0 or drop > self.conf_len:
            return
        del self.maps[:drop]
        del self.rmaps[:drop]
        self.conf_len -= drop
        self.items = [dict(it, idx=it["idx"] - drop) for it in self.items if it["idx"] >= drop]
        mm = []
        for i in range(0, len(self.mirrors), 2):
            a, b = self.mirrors[i] - drop, self.mirrors[i + 1] - drop
            if a >= 0 and b >= 0:
                mm.extend([a, b])
        self.mirrors = mm


# =============================================================================== client

class Client(Party):
    def __init__(self, sim, cid):
        super().__init__(sim, cid)
        self.cid = cid
        self.schema = sim.schema
        self.journal_on = sim.cfg["knobs"]["journal"]
        self.epoch = 0
        self.reset_volatile()
        self.up = False

    def reset_volatile(self):
        self.doc = None
        self.version = None
        self.unconfirmed = []
        self.sel = (0, 0)
        self.hist = History()
        self.anchors = []
        self.pushing = None
        self.tid = 0
        self.want_pull = False
        self.joined = False

    def crash(self, torn):
        self.up = False
        self.reset_volatile()
        self.armed.clear()
        return self.store.crash(torn)

    @property
    def sid(self):
        """session id: confirmation by sender id is only sound within one incarnation of the
        unconfirmed list, so every reset starts a new session"""
        return "%s#%d" % (self.cid, self.epoch)

    # ---- (re)start
    def start(self):
        """restart: journal variant recovers its own durable state, otherwise rejoin"""
        sim = self.sim
        self.up = True
        if self.journal_on:
            recs = self.store.read("journal")
            if recs:
                base = loads(recs[0])
                self.epoch = base.get("epoch", 0)
                sim.ctx_site = "client.recover"
                doc = Node.from_json(self.schema, base["doc"])
                self.version = base["version"]
                conf = doc
                unc = []
                for i, d in enumerate(recs[1:]):
                    rec = loads(d)
                    st = Step.from_json(self.schema, rec["step"])
                    res = safe_apply(st, doc)
                    if res.failed or res.doc is None:
                        sim.mon.violation_if("C04", "replay.journal_step_failed",
                                             {"client": self.cid, "index": i, "failed": res.failed,
                                              "step": rec["step"]})
                        raise Internal("journal replay failed but C04 not monitored")
                    sim.mon.on_journal_replayed(self, i, rec, res.doc)
                    inv = safe_invert(sim, st, doc)
                    if inv is None:
                        break
                    unc.append(Reb(st, inv, doc, res.doc, rec.get("tid", 0), bool(rec.get("u"))))
                    # anything journaled may already have been pushed in the previous life
                    unc[-1].sent = True
                    doc = res.doc
                self.doc = doc
                self.unconfirmed = unc
                self.hist = History()
                for r in unc:
                    self.hist.add(r.step.get_map(), sim.mon.rmap_of(r.step), r.inverted, r.tid)
                self.sel = (min(self.sel[0], doc.content.size), min(self.sel[1], doc.content.size))
                self.joined = True
                self.want_pull = True
                sim.stats["client.journal_recovered"] += 1
                sim.send(self.cid, "auth", "pull", {"cid": self.cid, "version": self.version})
                return
        sim.send(self.cid, "auth", "join", {"cid": self.cid})

    def on_snapshot(self, msg):
        sim = self.sim
        p = loads(msg["payload"])
        if self.joined:
            return
        sim.ctx_site = "client.join"
        doc = Node.from_json(self.schema, p["doc"])
        orig = msg.get("orig")
        sim.mon.on_doc_decoded(orig[0] if orig else None, doc, p["doc"], "snapshot")
        self.reset_volatile()
        sim.epochs[self.cid] = sim.epochs.get(self.cid, 0) + 1
        self.epoch = sim.epochs[self.cid]
        self.doc = doc
        self.version = p["version"]
        self.joined = True
        self.sel = (0, 0)
        self.journal_rewrite()
        sim.stats["client.joined"] += 1

    # ---- journal
    def journal_rewrite(self):
        if not self.journal_on:
            return
        conf = self.confirmed_doc()
        datas = [dumps({"version": self.version, "doc": conf.to_json(), "epoch": self.epoch})]
        shadow = []
        for r in self.unconfirmed:
            datas.append(dumps({"step": r.step.to_json(), "tid": r.tid, "u": r.rebased_mark, "s": r.sent}))
            shadow.append(r.doc_after)
        self.hit("client.journal_rewrite")
        self.store.replace("journal", datas)
        self.sim.journal_shadow[self.cid] = shadow

    def journal_append(self, reb):
        if not self.journal_on:
            return
        data = dumps({"step": reb.step.to_json(), "tid": reb.tid, "u": reb.rebased_mark, "s": reb.sent})
        self.sim.mon.on_wire("step", reb.step, data, "journal", key="step")
        self.store.append("journal", data)
        self.store.sync("journal")
        self.sim.journal_shadow.setdefault(self.cid, []).append(reb.doc_after)
        self.hit("client.journal")

    def confirmed_doc(self):
        return self.unconfirmed[0].doc_before if self.unconfirmed else self.doc

    # ---- local editing
    def new_transform(self, site):
        return SimTransform(self.doc, self.sim, self, site)

    def edit(self, ops, label="edit"):
        sim = self.sim
        sim.ctx_site = "client." + label
        tr = self.new_transform("client.edit")
        refused = None
        try:
            with core.call_budget(COMMAND_CALL_BUDGET):
                for op in ops:
                    gen.apply_op(tr, op)
        except gen.Refused as e:
            refused = e
        except REFUSAL_TYPES as e:
            refused = e
        except core.BudgetExceeded as e:
            # non-termination inside a high-level command (fitter / helpers: C11/C12, not claimed)
            refused = e
        except SimCrash:
            sim.mon.on_transform(self, tr, "crashed", ops)
            raise
        if refused is not None:
            sim.stats["refused:" + type(refused).__name__] += 1
            sim.mon.on_transform(self, tr, refused, ops)
            return "refused:" + type(refused).__name__
        sim.mon.on_transform(self, tr, None, ops)
        if not tr.steps:
            return "noop"
        self.commit(tr, raw=any(op.get("op") == "raw_step" for op in ops))
        return "ok:%d" % len(tr.steps)

    def commit(self, tr, undoable=True, mirrors=None, raw=False):
        """`raw`: the steps were not emitted by a high-level operation on this document (raw
        primitive step, remapped undo), so C04 does not claim an exact inverse for mark /
        replace-around steps among them"""
        sim = self.sim
        self.tid += 1
        tid = self.tid
        for i, st in enumerate(tr.steps):
            before = tr.docs[i]
            after = tr.docs[i + 1] if i + 1 < len(tr.docs) else tr.doc
            unclaimed = raw and isinstance(st, (pt.AddMarkStep, pt.RemoveMarkStep, pt.ReplaceAroundStep))
            inv = safe_invert(sim, st, before)
            if inv is None:
                # abandon the rest of the transaction; what was committed so far stays consistent
                self.doc = before
                self.sel = (min(self.sel[0], before.content.size), min(self.sel[1], before.content.size))
                self.rebuild_hist_tail()
                return
            reb = Reb(st, inv, before, after, tid, unclaimed)
            reb.native = not raw
            self.journal_append(reb)
            self.unconfirmed.append(reb)
            self.doc = after
            self.hist.add(tr.mapping.maps[i], sim.mon.rmap_of(st), reb.inverted, tid, undoable,
                          mirror=(mirrors[i] if mirrors else None))
        self.doc = tr.doc
        a, h = self.sel
        self.sel = (tr.mapping.map(a, 1), tr.mapping.map(h, 1))
        self.map_anchors(tr.mapping.maps, [sim.mon.rmap_of(s) for s in tr.steps])
        self.hist.trim(sim.cfg["knobs"]["hist_len"] + len(self.unconfirmed))

    def map_anchors(self, maps, rmaps):
        out = []
        for (a, b) in self.anchors:
            for m in maps:
                a2, b2 = m.map(a, 1), m.map(b, -1)
                a, b = a2, max(a2, b2)
            out.append((a, b))
        self.anchors = out
        self.sim.mon.on_maps_used(self, maps, rmaps)

    def undo(self):
        sim = self.sim
        sim.ctx_site = "client.undo"
        h = self.hist
        tid = None
        for it in reversed(h.items):
            if it["undoable"]:
                tid = it["tid"]
                break
        if tid is None:
            return "nothing"
        its = [it for it in h.items if it["tid"] == tid and it["undoable"]]
        work = Mapping(h.maps[:], h.mirrors[:] or None)
        rwork = sim.mon.rmapping(h.rmaps, h.mirrors)
        tr = self.new_transform("client.undo")
        mirrors = []
        try:
            for it in reversed(its):
                sl = work.slice(it["idx"] + 1)
                sim.mon.on_mapping_used(self, sl, rwork.slice(it["idx"] + 1) if rwork else None,
                                        "undo.remap", tr.doc if it["idx"] + 1 == len(h.maps) else None)
                mapped = safe_map(sim, it["inv"], sl)
                sim.stats["undo.mapped" if mapped else "undo.dropped"] += 1
                if mapped is None:
                    continue
                if not gen.step_in_domain(mapped, tr.doc):
                    sim.stats["undo.out_of_domain"] += 1
                    continue
                res = tr.maybe_step(mapped)
                if res.failed:
                    sim.stats["undo.failed"] += 1
                    continue
                work.append_map(mapped.get_map(), it["idx"])
                if rwork:
                    rwork.append_map(sim.mon.rmap_of(mapped), it["idx"])
                mirrors.append(it["idx"])
        except REFUSAL_TYPES as e:
            # raised by Step.map / apply of a remapped inverse: judged by the apply seam if it is
            # C01's business; for the stub it is a refused command
            sim.stats["refused:" + type(e).__name__] += 1
            sim.mon.on_transform(self, tr, e, [{"op": "undo"}])
            return "refused:" + type(e).__name__
        for it in its:
            it["undoable"] = False
        sim.mon.on_transform(self, tr, None, [{"op": "undo"}], exact_undo=False)
        if not tr.steps:
            return "noop"
        self.commit(tr, undoable=False, mirrors=mirrors, raw=True)
        return "ok:%d" % len(tr.steps)

    def reload(self):
        """JSON round trip of the local state: breaks all identity sharing"""
        sim = self.sim
        sim.ctx_site = "client.reload"
        data = dumps(self.doc.to_json())
        sim.mon.on_wire("doc", self.doc, data, "reload", key="doc")
        new = Node.from_json(self.schema, loads(data))
        sim.mon.on_doc_decoded(self.doc, new, loads(data), "reload")
        sim.mon.on_pair(self.doc, new, "reload")
        if self.unconfirmed:
            # re-anchor the unconfirmed chain on reloaded documents
            base = Node.from_json(self.schema, loads(dumps(self.confirmed_doc().to_json())))
            doc = base
            unc = []
            for r in self.unconfirmed:
                res = safe_apply(r.step, doc)
                if res.failed or res.doc is None:
                    return "reload-failed"
                inv = safe_invert(sim, r.step, doc)
                if inv is None:
                    return "reload-failed"
                unc.append(Reb(r.step, inv, doc, res.doc, r.tid, r.rebased_mark))
                unc[-1].sent = r.sent
                unc[-1].native = r.native
                doc = res.doc
            self.unconfirmed = unc
            new = doc
        self.doc = new
        return "ok"

    def inspect(self, positions):
        """read-only queries an editor UI makes all the time (toolbar state, cursor info, search):
        none of them may change any document (C10: 'model queries')"""
        sim = self.sim
        sim.ctx_site = "client.inspect"
        doc = self.doc
        size = doc.content.size
        ok = bad = 0

        def q(fn):
            nonlocal ok, bad
            try:
                fn()
                ok += 1
            except core.BudgetExceeded:
                raise
            except Exception as e:  # noqa: BLE001
                bad += 1
                sim.stats["inspect_refused:" + type(e).__name__] += 1

        try:
            with core.call_budget(COMMAND_CALL_BUDGET):
                ps = [min(max(0, p), size) for p in positions]
                for i, p in enumerate(ps):
                    p2 = ps[(i + 1) % len(ps)]
                    lo, hi = min(p, p2), max(p, p2)
                    try:
                        rp, rq = doc.resolve(p), doc.resolve(p2)
                        rlo, rhi = doc.resolve(lo), doc.resolve(hi)
                    except Exception:  # noqa: BLE001
                        continue
                    q(lambda: rp.marks())
                    q(lambda: rp.marks_across(rq))
                    q(lambda: rlo.marks_across(rhi))
                    q(lambda: (rp.node_before, rp.node_after, rp.text_offset, rp.parent_offset))
                    for d in range(rp.depth + 1):
                        q(lambda d=d: (rp.node(d), rp.index(d), rp.index_after(d), rp.start(d), rp.end(d)))
                        if d:
                            q(lambda d=d: (rp.before(d), rp.after(d)))
                    q(lambda: rp.shared_depth(p2))
                    q(lambda: rp.same_parent(rq))

                    def br():
                        r = rlo.block_range(rhi)
                        if r is not None:
                            r.start, r.end, r.parent, r.start_index, r.end_index
                            pt.lift_target(r)
                            for t in list(self.schema.nodes.values())[:6]:
                                if not t.is_text:
                                    pt.find_wrapping(r, t)
                    q(br)
                    q(lambda: doc.node_at(p))
                    q(lambda: doc.child_after(p))
                    q(lambda: doc.child_before(p))
                    q(lambda: doc.text_between(lo, hi, "\n", "*"))
                    q(lambda: doc.slice(lo, hi))
                    q(lambda: doc.slice(lo, hi, True))
                    q(lambda: doc.cut(lo, hi))
                    q(lambda: doc.content.cut(lo, hi))
                    for m in self.schema.marks.values():
                        q(lambda m=m: doc.range_has_mark(lo, hi, m))
                    q(lambda: doc.nodes_between(lo, hi, lambda node, pos, parent, index: None))
                    q(lambda: pt.can_split(doc, p))
                    q(lambda: pt.can_join(doc, p))
                    q(lambda: pt.join_point(doc, p))
                    for t in list(self.schema.nodes.values())[:4]:
                        q(lambda t=t: pt.insert_point(doc, p, t))
                    q(lambda: pt.drop_point(doc, p, doc.slice(lo, hi)))
                    par = rp.parent
                    q(lambda: par.content_match_at(rp.index()))
                    q(lambda: par.can_replace(rp.index(), rp.index()))
                    q(lambda: par.type.allowed_marks(rp.marks()))
                    q(lambda: par.content_match_at(rp.index()).fill_before(pm.Fragment.empty, True))
                    q(lambda: doc.content.find_diff_start(doc.content))
                    q(lambda: doc.content.find_diff_end(doc.content))
                q(lambda: doc.text_content)
                q(lambda: str(doc))
                q(lambda: doc.eq(doc.copy(doc.content)))
                q(lambda: doc.check())
                q(lambda: doc.to_json())
                q(lambda: doc.descendants(lambda node, pos, parent, index: None))
                q(lambda: pm.Mark.set_from(list(reversed(doc.resolve(ps[0]).marks()))))
        except core.BudgetExceeded:
            sim.stats["refused:inspect:BudgetExceeded"] += 1
        sim.stats["inspect.queries"] += ok
        return "ok:%d/%d" % (ok, ok + bad)

    def clipboard(self, frm, to, dfrom, dto):
        import lxml.html

        sim = self.sim
        sim.ctx_site = "client.clipboard"
        size = self.doc.content.size
        if not (0 <= frm <= to <= size and 0 <= dfrom <= dto <= size):
            return "skip"
        try:
            with core.call_budget(COMMAND_CALL_BUDGET):
                sl = self.doc.slice(frm, to)
                html = str(pm.DOMSerializer.from_schema(self.schema).serialize_fragment(sl.content))
                if not html.strip():
                    return "empty"
                dom = lxml.html.fragment_fromstring(html, create_parent="document-fragment")
                parsed = pm.DOMParser.from_schema(self.schema).parse(dom)
                try:
                    parsed.check()
                except ValueError:
                    # HTML import produced a schema-invalid document: C19's business (not claimed);
                    # such a payload is outside the quantifier of every claimed property
                    sim.stats["clipboard.parse_invalid"] += 1
                    return "parse-invalid"
                psl = Slice.max_open(parsed.content)
        except (core.BudgetExceeded, Exception) as e:
            sim.stats["refused:clipboard:" + type(e).__name__] += 1
            return "refused"
        sim.mon.retain("slice", psl)
        op = {"op": "paste_range", "from": dfrom, "to": dto, "slice": psl.to_json(), "src": "clipboard"}
        return self.edit([op], "clipboard")

    # ---- protocol
    def sendable(self):
        return bool(self.unconfirmed) and self.joined

    def compress(self):
        """outbox compression with Step.merge (knob)"""
        sim = self.sim
        if not sim.cfg["knobs"]["merge"] or len(self.unconfirmed) < 2:
            return
        new = []
        changed = False
        for reb in self.unconfirmed:
            if new and not new[-1].sent and not reb.sent:
                prev = new[-1]
                try:
                    m = prev.step.merge(reb.step)
                except Exception as e:  # noqa: BLE001
                    sim.mon.on_merge_raised(prev.step, reb.step, e)
                    m = None
                minv = safe_invert(sim, m, prev.doc_before) if m is not None else None
                if m is not None and minv is not None:
                    sim.mon.on_merge(self, prev.step, reb.step, m, prev.doc_before, reb.doc_after,
                                     "outbox")
                    new[-1] = Reb(m, minv, prev.doc_before, reb.doc_after,
                                  prev.tid, prev.rebased_mark or reb.rebased_mark)
                    changed = True
                    sim.stats["outbox.merged"] += 1
                    continue
            new.append(reb)
        if changed:
            self.unconfirmed = new
            self.rebuild_hist_tail()
            self.journal_rewrite()

    def rebuild_hist_tail(self):
        h = self.hist
        h.truncate(h.conf_len)
        for r in self.unconfirmed:
            h.add(r.step.get_map(), self.sim.mon.rmap_of(r.step), r.inverted, r.tid)

    def push(self):
        sim = self.sim
        if not self.sendable():
            return "nothing"
        sim.ctx_site = "client.push"
        self.compress()
        n = sim.cfg["knobs"]["push_batch"]
        rebs = self.unconfirmed[:n] if n else self.unconfirmed
        steps = [r.step for r in rebs]
        for r in rebs:
            r.sent = True
        payload = {"cid": self.sid, "version": self.version, "steps": [s.to_json() for s in steps]}
        mid = sim.send(self.cid, "auth", "push", payload, orig=steps)
        sim.inflight[mid]["native"] = [r.native for r in rebs]
        return "sent:%d" % len(steps)

    def pull(self):
        self.want_pull = False
        if not self.joined:
            self.sim.send(self.cid, "auth", "join", {"cid": self.cid})
            return "join"
        self.sim.send(self.cid, "auth", "pull", {"cid": self.cid, "version": self.version})
        return "sent"

    def on_resync(self, msg):
        self.joined = False
        self.sim.stats["client.resync"] += 1
        self.sim.send(self.cid, "auth", "join", {"cid": self.cid})

    def on_steps(self, msg):
        sim = self.sim
        if not self.joined:
            return "notjoined"
        p = loads(msg["payload"])
        frm = p["from"]
        n = len(p["steps"])
        if frm > self.version:
            self.want_pull = True
            return "gap"
        skip = self.version - frm
        if skip >= n:
            return "stale"
        sjs = p["steps"][skip:]
        cids = p["cids"][skip:]
        origs = (msg.get("orig") or [None] * n)[skip:]
        sim.ctx_site = "client.receive"
        steps = []
        for sj, o in zip(sjs, origs):
            st = Step.from_json(self.schema, sj)
            sim.mon.on_step_decoded(o, st, sj, None, "client.receive")
            steps.append(st)
        return self.receive(steps, cids, sjs)

    def receive(self, steps, cids, sjs):
        """port of prosemirror-collab receiveTransaction + rebaseSteps"""
        sim = self.sim
        ours = 0
        while ours < len(cids) and cids[ours] == self.sid and ours < len(self.unconfirmed):
            ours += 1
        # confirmation
        confirmed = self.unconfirmed[:ours]
        rest = self.unconfirmed[ours:]
        steps = steps[ours:]
        old_version = self.version
        if not steps:
            self.unconfirmed = rest
            self.version += ours
            self.hist.conf_len += ours
            self.journal_rewrite()
            sim.stats["client.confirmed"] += ours
            sim.mon.on_confirmed(self, old_version, self.version)
            return "confirmed:%d" % ours
        sim.stats["client.confirmed"] += ours
        h = self.hist
        tr = self.new_transform("client.rebase")
        if not rest:
            for st in steps:
                res = safe_maybe_step(tr, st)
                if res.failed:
                    sim.diag("client_cannot_apply_remote_step")
                    self.joined = False
                    sim.send(self.cid, "auth", "join", {"cid": self.cid})
                    return "diverged"
            self.unconfirmed = []
            self.version += ours + len(steps)
            self.doc = tr.doc
            h.conf_len += ours
            h.truncate(h.conf_len)
            for i, st in enumerate(steps):
                h.add(tr.mapping.maps[i], sim.mon.rmap_of(st))
            h.conf_len = len(h.maps)
            a, hd = self.sel
            self.sel = (tr.mapping.map(a, 1), tr.mapping.map(hd, 1))
            self.map_anchors(tr.mapping.maps, [sim.mon.rmap_of(s) for s in steps])
            sim.mon.on_transform(self, tr, None, [{"op": "remote"}], exact_undo=False)
            sim.mon.on_remote_applied(self, old_version + ours, self.version, tr)
            self.journal_rewrite()
            h.trim(sim.cfg["knobs"]["hist_len"])
            return "applied:%d" % len(steps)
        # ---- rebase
        sim.stats["rebase"] += 1
        base_version = old_version + ours
        tainted = any(r.rebased_mark for r in rest)
        pre_doc = self.doc
        for r in reversed(rest):
            res = safe_maybe_step(tr, r.inverted)
            if res.failed:
                sim.mon.on_rebase_undo_failed(self, r, res, tainted)
                self.joined = False
                sim.send(self.cid, "auth", "join", {"cid": self.cid})
                return "undo-failed"
        self.hit("client.rebase.undo")
        ok = sim.mon.on_rebase_undone(self, base_version, tr.doc, tainted, rest)
        if not ok:
            # tainted chain whose naive inverse was inexact (upstream behaviour): resynchronise
            sim.stats["rebase.tainted_inexact"] += 1
            self.joined = False
            sim.send(self.cid, "auth", "join", {"cid": self.cid})
            return "tainted-resync"
        for st in steps:
            res = safe_maybe_step(tr, st)
            if res.failed:
                sim.diag("client_cannot_apply_remote_step")
                self.joined = False
                sim.send(self.cid, "auth", "join", {"cid": self.cid})
                return "diverged"
        self.hit("client.rebase.remote")
        conf_after = tr.doc
        new_unc = []
        map_from = len(rest)
        dropped = 0
        judged_pairs = []
        for i, r in enumerate(rest):
            sl = tr.mapping.slice(map_from)
            mapped = safe_map(sim, r.step, sl)
            map_from -= 1
            applied = False
            if mapped is not None:
                res = safe_maybe_step(tr, mapped)
                if not res.failed:
                    applied = True
                    tr.mapping.set_mirror(map_from, len(tr.steps) - 1)
                    before = tr.docs[-1]
                    is_mark = isinstance(mapped, (pt.AddMarkStep, pt.RemoveMarkStep))
                    inv = safe_invert(sim, mapped, before)
                    if inv is None:
                        self.joined = False
                        sim.send(self.cid, "auth", "join", {"cid": self.cid})
                        return "invert-failed"
                    new_unc.append(Reb(mapped, inv, before, tr.doc, r.tid, r.rebased_mark or is_mark))
            if not applied:
                dropped += 1
            judged_pairs.append((r, mapped, applied))
        self.hit("client.rebase.reapply")
        sim.stats["rebase.dropped_steps"] += dropped
        sim.mon.on_rebased(self, tr, rest, steps, new_unc, judged_pairs, base_version, pre_doc,
                           conf_after, tainted)
        # commit
        self.unconfirmed = new_unc
        self.version = base_version + len(steps)
        self.doc = tr.doc
        a, hd = self.sel
        self.sel = (tr.mapping.map(a, 1), tr.mapping.map(hd, 1))
        self.map_anchors([tr.mapping], None)
        h.conf_len += ours
        h.truncate(h.conf_len)
        nrest = len(rest)
        for i, st in enumerate(steps):
            h.add(tr.mapping.maps[nrest + i], sim.mon.rmap_of(st))
        h.conf_len = len(h.maps)
        for r in new_unc:
            h.add(r.step.get_map(), sim.mon.rmap_of(r.step), r.inverted, r.tid)
        self.hit("client.rebase.commit")
        self.journal_rewrite()
        h.trim(sim.cfg["knobs"]["hist_len"] + len(self.unconfirmed))
        return "rebased:%d/%d" % (len(new_unc), len(rest))


# =============================================================================== the run

DEFAULT_KNOBS = {"merge": False, "push_batch": 0, "pull_batch": 0, "snap_every": 0, "journal": False,
                 "hist_len": 40, "c10_period": 1, "sync_rounds": 0.0}

DEFAULT_FAULTS = {"drop": 0.0, "dup": 0.0, "lat": [1, 20], "partition": 0.0, "crash_client": 0.0,
                  "crash_auth": 0.0, "stall": 0.0, "byz": 0.0, "torn": 0.0, "flush": 0.0,
                  "reload": 0.0, "clipboard": 0.0, "translate": 0.0}


class Sim:
    def __init__(self, cfg, mon, seed=None):
        self.cfg = cfg
        self.mon = mon
        mon.sim = self
        self.seed = seed
        self.rng = random.Random(seed) if seed is not None else None
        self.schema = schemas.fresh(cfg["schema"])
        self.stats = Counter()
        self.trace = []
        self.log = []
        self.now = 0
        self.ctx_site = "init"
        self.ctx_party = None
        self.in_oracle = 0
        self.journal_shadow = {}
        self.epochs = {}
        self.diags = Counter()
        self.inflight = {}
        self.archive = {}  # delivered/dropped messages (payload lookup for byzantine experiments)
        self.archive_order = []
        self.new_msgs = []
        self.cur_event_id = 0
        self.msg_seq = 0
        self.strays = []  # documents produced by side experiments
        self.partitioned = set()
        self.states_seen = set()
        self.crashed_now = []
        self.virtual_ms = 0
        core.CURRENT = self
        core.install()
        gen.on_input = mon.retain
        self.flush_caches()  # no run may depend on what earlier runs in this process left behind
        self.stats.clear()
        try:
            doc0 = Node.from_json(self.schema, cfg["init_doc"])
        except Exception as e:  # noqa: BLE001
            # the initial document is the to_json() output of a valid document: not being able to
            # read it back is C05's business
            mon.violation("C05", "decode.raised", {"shape": "doc", "site": "initial document",
                                                   "json": cfg["init_doc"], "error": repr(e)})
            raise core.AbortRun("initial document does not decode")
        doc0.check()
        self.r3 = [{"doc": doc0, "digest": tk.own_digest(doc0), "step": None, "cid": None}]
        self.auth = Authority(self, doc0)
        self.clients = {}
        for i in range(cfg["n_clients"]):
            cid = "c%d" % i
            self.clients[cid] = Client(self, cid)
        mon.on_start(doc0)
        # second tenant: built after the main schema's first documents were decoded, so that
        # whatever the library remembers about the first schema is already there
        self.twin = None
        self.tenant_doc = None
        if cfg.get("tenant_doc") is not None:
            self.twin = schemas.twin_of(self.schema)
            try:
                td = Node.from_json(self.twin, json.loads(json.dumps(cfg["tenant_doc"])))
            except Exception as e:  # noqa: BLE001
                mon.violation("C05", "decode.raised", {"shape": "doc", "site": "tenant initial document",
                                                       "json": cfg["tenant_doc"], "error": repr(e)})
                raise core.AbortRun("tenant document does not decode")
            self.tenant_decoded(td, cfg["tenant_doc"], "tenant initial document")
            self.tenant_doc = td

    def tenant_decoded(self, dec, js, site):
        """a document of the second tenant read back from JSON: must be valid under *its* schema and
        re-serialise to the JSON it came from (C05)"""
        import validity

        bad = None
        try:
            dec.check()
        except Exception as e:  # noqa: BLE001
            bad = repr(e)
        if bad is None:
            bad = validity.problems(dec) or None
        if bad is not None or tk.canon(dec.to_json()) != tk.canon(js):
            self.mon.violation("C05", "decode.not_equal", {"shape": "doc", "site": site, "json": js,
                                                           "got": dec.to_json(), "why": bad})
            raise core.AbortRun("tenant document decoded wrongly")

    def tenant(self, ev):
        """one transaction of the second tenant (same process, twin schema): applied through a plain
        Transform, steps and result cross JSON; judged for the properties quantified over all
        schemas (C01 C03 at the apply seam, C05, C08 transform laws, C10, C20)"""
        if self.twin is None or self.tenant_doc is None:
            return "skip"
        main = self.schema
        self.schema = self.twin
        self.ctx_site = "tenant.edit"
        mon = self.mon
        try:
            tr = Transform(self.tenant_doc)
            refused = None
            try:
                with core.call_budget(COMMAND_CALL_BUDGET):
                    for op in ev["ops"]:
                        gen.apply_op(tr, op)
            except gen.Refused as e:
                refused = e
            except REFUSAL_TYPES as e:
                refused = e
            except core.BudgetExceeded as e:
                refused = e
            mon.on_transform(None, tr, refused, ev["ops"], tenant=True)
            self.stats["tenant.transactions"] += 1
            if refused is not None:
                self.stats["tenant.refused"] += 1
                return "refused:" + type(refused).__name__
            if not tr.steps:
                return "noop"
            # an application outside C01's quantifier (invalid closed node inside a fitter-built
            # slice: C11's business) may leave an invalid document: the tenant does not adopt it
            import validity

            try:
                tr.doc.check()
                bad = bool(validity.problems(tr.doc))
            except ValueError:
                bad = True
            if bad:
                self.stats["tenant.invalid_result_not_adopted"] += 1
                return "invalid"
            for i, st in enumerate(tr.steps):
                sj = loads(dumps(st.to_json()))
                mon.guard("C05", mon.c05_step, st, sj, "tenant")
                try:
                    dec = Step.from_json(self.twin, sj)
                except Exception:  # noqa: BLE001  (reported by c05_step above)
                    continue
                if "C05" in mon.on:
                    mon.on_step_decoded(st, dec, sj, tr.docs[i], "tenant")
                    safe_apply(dec, tr.docs[i])
            self.stats["tenant.steps"] += len(tr.steps)
            data = dumps(tr.doc.to_json())
            mon.on_wire("doc", tr.doc, data, "tenant", key=None)
            if ev.get("reload"):
                new = Node.from_json(self.twin, loads(data))
                if "C05" in mon.on:
                    self.tenant_decoded(new, loads(data), "tenant reload")
                self.tenant_doc = new
            else:
                self.tenant_doc = tr.doc
            return "ok:%d" % len(tr.steps)
        finally:
            self.schema = main

    # ---- R3 single-copy log (omniscient, never crashes)
    def r3_append(self, version, doc, step, cid):
        if version != len(self.r3):
            raise Internal("r3 append out of order")
        self.r3.append({"doc": doc, "digest": tk.own_digest(doc), "step": step, "cid": cid})
        self.mon.retain("doc", doc)

    def r3_extend(self, auth, recs):
        # durable log may be longer than R3 (crash between sync and in-memory update)
        while len(self.r3) <= auth.version:
            v = len(self.r3)
            doc = self.r3[-1]["doc"]
            res = core.raw_apply(auth.steps[v - 1], doc)
            if res.failed or res.doc is None:
                raise Internal("r3 extension failed")
            self.r3.append({"doc": res.doc, "digest": tk.own_digest(res.doc), "step": auth.steps[v - 1],
                            "cid": auth.cids[v - 1], "unjudged": True})

    def diag(self, name):
        self.diags[name] += 1

    def party(self, name):
        return self.auth if name == "auth" else self.clients.get(name)

    # ---- observation seam for every Step.apply
    def observed_apply(self, step, doc, orig):
        self.stats["apply"] += 1
        try:
            res = orig(step, doc)
        except (Violation, SimCrash, core.BudgetExceeded, core.AbortRun):
            raise
        except BaseException as e:  # noqa: BLE001
            with core.budget_paused():
                self.mon.on_apply(step, doc, None, e)
            raise
        with core.budget_paused():
            self.mon.on_apply(step, doc, res, None)
        return res

    # ---- network
    def send(self, src, dst, kind, payload, orig=None):
        self.msg_seq += 1
        mid = "%d.%d" % (self.cur_event_id, self.msg_seq)
        data = dumps(payload)
        msg = {"id": mid, "src": src, "dst": dst, "kind": kind, "payload": data, "orig": orig,
               "t": self.now}
        self.inflight[mid] = msg
        self.new_msgs.append(msg)
        self.stats["msg:" + kind] += 1
        if kind in ("push", "steps") and orig:
            self.mon.on_steps_on_wire(msg, payload, orig)
        elif kind == "snapshot" and orig:
            self.mon.on_wire("doc", orig[0], dumps(payload["doc"]), "snapshot", key=None)
        return mid

    def retire(self, mid):
        msg = self.inflight.pop(mid, None)
        if msg is not None:
            self.archive[mid] = msg
            self.archive_order.append(mid)
            if len(self.archive_order) > 60:
                old = self.archive_order.pop(0)
                self.archive.pop(old, None)
        return msg

    # ---- live documents (paste sources, C16 / byzantine targets)
    def live_docs(self):
        out = []
        for c in self.clients.values():
            if c.up and c.doc is not None:
                out.append(("client", c.cid, c.doc))
        if self.auth.up:
            out.append(("auth", self.auth.version, self.auth.doc))
        n = len(self.r3)
        for v in sorted(set([0, n // 2, max(0, n - 2)])):
            if v < n:
                out.append(("r3", v, self.r3[v]["doc"]))
        for i, d in enumerate(self.strays[-4:]):
            out.append(("stray", i, d))
        return out

    # ---- event execution (identical in generate and replay mode)
    def step(self, ev):
        """execute one concrete event, record it, run the after-event monitors"""
        self.trace.append(ev)
        self.cur_event_id = ev["id"]
        self.msg_seq = 0
        self.now = ev.get("t", self.now)
        self.ctx_party = ev.get("c") or ev.get("party")
        out = None
        try:
            out = self.execute(ev)
        except SimCrash as cr:
            out = "CRASH@" + cr.site
            self.do_crash(cr.party, cr.site, ev)
            self.crashed_now.append(cr.party)
        self.log.append("%d %s %s -> %s" % (ev["id"], ev["k"], ev.get("c") or ev.get("party") or
                                            ev.get("msg") or "", out))
        self.stats["ev:" + ev["k"]] += 1
        self.mon.after_event(ev, out)
        self.note_state()
        return out

    def do_crash(self, name, site, ev):
        p = self.party(name)
        torn = bool(ev.get("torn")) or bool(getattr(p, "armed_torn", False))
        p.armed_torn = False
        lost, tornn = p.crash(torn)
        self.stats["crash:" + site] += 1
        self.stats["store.lost_unsynced"] += lost
        self.stats["store.torn"] += tornn
        if name != "auth":
            self.auth_disconnect(name)

    def auth_disconnect(self, cid):
        if self.auth.up:
            self.auth.connected.discard(cid)

    def execute(self, ev):
        k = ev["k"]
        if k == "edit":
            c = self.clients.get(ev["c"])
            if c is None or not c.up or not c.joined:
                return "skip"
            if "sel" in ev:
                size = c.doc.content.size
                c.sel = (min(ev["sel"][0], size), min(ev["sel"][1], size))
            return c.edit(ev["ops"])
        if k == "undo":
            c = self.clients.get(ev["c"])
            if c is None or not c.up or not c.joined:
                return "skip"
            return c.undo()
        if k == "push":
            c = self.clients.get(ev["c"])
            if c is None or not c.up or not c.joined:
                return "skip"
            return c.push()
        if k == "pull":
            c = self.clients.get(ev["c"])
            if c is None or not c.up:
                return "skip"
            return c.pull()
        if k == "reload":
            c = self.clients.get(ev["c"])
            if c is None or not c.up or not c.joined:
                return "skip"
            return c.reload()
        if k == "clipboard":
            c = self.clients.get(ev["c"])
            if c is None or not c.up or not c.joined:
                return "skip"
            return c.clipboard(ev["from"], ev["to"], ev["dfrom"], ev["dto"])
        if k == "inspect":
            c = self.clients.get(ev["c"])
            if c is None or not c.up or not c.joined:
                return "skip"
            return c.inspect(ev["pos"])
        if k == "anchor":
            c = self.clients.get(ev["c"])
            if c is None or not c.up or not c.joined:
                return "skip"
            size = c.doc.content.size
            a, b = min(ev["from"], size), min(ev["to"], size)
            c.anchors.append((min(a, b), max(a, b)))
            c.anchors = c.anchors[-6:]
            return "ok"
        if k == "deliver":
            msg = self.retire(ev["msg"])
            if msg is None:
                return "nomsg"
            return self.deliver(msg)
        if k == "drop":
            msg = self.retire(ev["msg"])
            self.stats["net.dropped"] += 1 if msg else 0
            return "dropped" if msg else "nomsg"
        if k == "dup":
            msg = self.inflight.get(ev["msg"])
            if msg is None:
                return "nomsg"
            self.msg_seq += 1
            mid = "%d.%d" % (self.cur_event_id, self.msg_seq)
            cp = dict(msg, id=mid)
            self.inflight[mid] = cp
            self.new_msgs.append(cp)
            self.stats["net.duplicated"] += 1
            return mid
        if k == "arm":
            p = self.party(ev["party"])
            if p is None or not p.up:
                return "skip"
            p.armed[ev["site"]] = ev.get("after", 0)
            p.armed_torn = bool(ev.get("torn"))
            return "armed"
        if k == "restart":
            p = self.party(ev["party"])
            if p is None or p.up:
                return "skip"
            self.ctx_party = ev["party"]
            if ev["party"] == "auth":
                self.auth.recover()
                self.stats["auth.recovered"] += 1
            else:
                p.start()
            return "up"
        if k == "start":
            p = self.clients.get(ev["party"])
            if p is None or p.up:
                return "skip"
            p.start()
            return "up"
        if k == "kill":
            # crash while idle (outside an operation)
            p = self.party(ev["party"])
            if p is None or not p.up:
                return "skip"
            raise SimCrash(ev["party"], "idle")
        if k == "partition":
            self.partitioned = set(ev["set"])
            self.stats["net.partitions"] += 1
            return "ok"
        if k == "heal":
            self.partitioned = set()
            return "ok"
        if k == "flush_caches":
            return self.flush_caches()
        if k == "byz":
            return self.byzantine(ev)
        if k == "translate":
            return self.translate(ev)
        if k == "tenant":
            return self.tenant(ev)
        if k == "bigdoc":
            self.ctx_site = "bigdoc"
            return self.mon.c08_bigdoc(ev)
        if k == "probe":
            return self.mon.on_probe(ev)
        if k == "note":
            return "ok"
        raise Internal("unknown event kind %r" % k)

    def deliver(self, msg):
        dst = self.party(msg["dst"])
        if dst is None or not dst.up:
            self.stats["net.to_down_party"] += 1
            return "down"
        self.ctx_party = msg["dst"]
        kind = msg["kind"]
        if msg["dst"] == "auth":
            if kind == "push":
                dst.on_push(msg)
            elif kind == "pull":
                dst.on_pull(msg)
            elif kind == "join":
                dst.on_join(msg)
            else:
                raise Internal("auth got " + kind)
            return kind
        if kind == "steps":
            return dst.on_steps(msg)
        if kind == "snapshot":
            dst.on_snapshot(msg)
            return kind
        if kind == "resync":
            dst.on_resync(msg)
            return kind
        raise Internal("client got " + kind)

    def flush_caches(self):
        """knob: no result may silently depend on the wrap cache being warm"""
        n = 0
        seen = set()
        for t in self.schema.nodes.values():
            stack = [t.content_match]
            while stack:
                m = stack.pop()
                if id(m) in seen:
                    continue
                seen.add(id(m))
                n += len(m.wrap_cache)
                m.wrap_cache = []
                for e in m.next:
                    stack.append(e.next)
        self.schema.cached.pop("dom_parser", None)
        self.schema.cached.pop("dom_serializer", None)
        self.stats["wrap_cache_flushed"] += n
        return "flushed"

    # ---- byzantine side experiments (never change system state)
    def lookup_target(self, tgt):
        kind, key = tgt
        if kind == "client":
            c = self.clients.get(key)
            return c.doc if c is not None and c.up and c.doc is not None else None
        if kind == "auth":
            return self.auth.doc if self.auth.up else None
        if kind == "r3":
            return self.r3[key]["doc"] if 0 <= key < len(self.r3) else None
        if kind == "stray":
            s = self.strays[-4:]
            return s[key] if 0 <= key < len(s) else None
        return None

    def byzantine(self, ev):
        """apply a step taken from the wire (possibly perturbed inside C01's quantifier) to some
        live document of the same schema: stale / duplicate / misrouted / corrupted application,
        naive undo.  The apply seam judges the outcome."""
        target = self.lookup_target(tuple(ev["target"]))
        if target is None:
            return "notarget"
        if ev.get("steps"):
            outs = []
            for sj in ev["steps"]:
                outs.append(self.byzantine({"k": "byz", "kind": ev.get("kind", "fuzz"), "target": ev["target"],
                                            "step": sj}))
            return ",".join(outs)
        sj = ev.get("step")
        if sj is None:
            msg = self.inflight.get(ev.get("msg")) or self.archive.get(ev.get("msg"))
            if msg is None or msg["kind"] not in ("push", "steps"):
                return "nomsg"
            p = loads(msg["payload"])
            if not p["steps"]:
                return "nosteps"
            sj = p["steps"][ev.get("index", 0) % len(p["steps"])]
        sj = json.loads(json.dumps(sj))
        mut = ev.get("mut") or {}
        for key, val in sorted(mut.items(), key=lambda kv: kv[0] == "set"):
            if key == "shift":
                for f in ("from", "to", "gapFrom", "gapTo", "pos"):
                    if f in sj and isinstance(sj[f], int):
                        sj[f] = sj[f] + val
            elif key == "set":
                for f, v in val.items():
                    if f in sj:
                        sj[f] = v
                # keep the positions ordered (C01's quantifier) after independent perturbations
                order = [f for f in ("from", "gapFrom", "gapTo", "to") if f in sj]
                vals = sorted(sj[f] for f in order)
                for f, v in zip(order, vals):
                    sj[f] = v
            elif key == "structure":
                if sj.get("stepType") in ("replace", "replaceAround"):
                    if val:
                        sj["structure"] = True
                    else:
                        sj.pop("structure", None)
            elif key == "slice":
                if sj.get("stepType") in ("replace", "replaceAround"):
                    if val is None:
                        sj.pop("slice", None)
                    else:
                        sj["slice"] = val
            elif key == "mark":
                if "mark" in sj:
                    sj["mark"] = val
            elif key == "value":
                if "value" in sj:
                    sj["value"] = val
        self.ctx_site = "byz." + ev.get("kind", "stale")
        try:
            st = Step.from_json(self.schema, sj)
        except ValueError:
            self.stats["byz.undecodable"] += 1
            return "undecodable"
        if not gen.step_in_domain(st, target):
            self.stats["byz.out_of_domain"] += 1
            # executed and counted, not judged
            self.in_oracle += 1
            try:
                core.raw_apply(st, target)
            except BaseException:  # noqa: BLE001
                pass
            finally:
                self.in_oracle -= 1
            return "out-of-domain"
        self.stats["byz.applied:" + ev.get("kind", "stale")] += 1
        self.stats["byz.kind:" + core.step_kind(st)] += 1
        try:
            res = st.apply(target)
        except ValueError:
            self.stats["byz.valueerror"] += 1
            return "valueerror"
        if res.failed:
            self.stats["byz.failed"] += 1
            return "failed"
        self.stats["byz.ok"] += 1
        if id(res.doc) in self.mon.invalid_docs:
            return "ok-invalid"
        self.strays.append(res.doc)
        if len(self.strays) > 8:
            self.strays.pop(0)
        self.mon.on_pair(target, res.doc, "byz")
        return "ok"

    # ---- authority position-translation service (C08 site)
    def translate(self, ev):
        a = self.auth
        if not a.up:
            return "down"
        v1, v2 = ev["v1"], ev["v2"]
        if not (0 <= v1 <= a.version and 0 <= v2 <= a.version):
            return "range"
        self.ctx_site = "auth.translate"
        self.mon.on_translate(a, v1, v2, ev.get("mid"), ev.get("mode", "plain"))
        return "ok"

    # ---- state coverage measure
    def note_state(self):
        a = self.auth
        parts = [self.r3[-1]["digest"], a.version if a.up else -1]
        for cid in sorted(self.clients):
            c = self.clients[cid]
            if c.up and c.doc is not None:
                parts.append((c.version, len(c.unconfirmed), tk.own_digest(c.doc)))
            else:
                parts.append(None)
        self.states_seen.add(hash(repr(parts)))

    def digest(self):
        import hashlib

        h = hashlib.sha1()
        for line in self.log:
            h.update(line.encode("utf-8", "replace"))
            h.update(b"\n")
        h.update(self.r3[-1]["digest"].encode())
        return h.hexdigest()

    # ---- replay
    def replay(self, events):
        for ev in events:
            self.step(ev)
        self.finish()

    def finish(self):
        self.mon.on_finish()


# =============================================================================== generator

class Generator:
    """Seeded scheduler: decides every interleaving, delay, command and fault from sim.rng and turns
    it into concrete events executed through Sim.step."""

    def __init__(self, sim):
        self.sim = sim
        self.rng = sim.rng
        self.heap = []
        self.seq = 0
        self.eid = 0
        self.t = 0
        self.stalled = {}
        self.push_deadline = {}
        self.draining = False

    def faults_on(self):
        q = self.sim.cfg.get("quiet_after_events")
        return q is None or self.eid < q

    def at(self, t, kind, data=None):
        self.seq += 1
        heapq.heappush(self.heap, (t, self.seq, kind, data))

    def emit(self, ev):
        self.eid += 1
        ev["id"] = self.eid
        ev["t"] = self.t
        out = self.sim.step(ev)
        self.after(ev, out)
        return out

    def after(self, ev, out):
        """schedule what the executed event made necessary: deliveries, restarts"""
        sim, rng = self.sim, self.rng
        f = sim.cfg["faults"]
        faults_on = self.faults_on()
        msgs, sim.new_msgs = sim.new_msgs, []
        for msg in msgs:
            lat = rng.randint(f["lat"][0], f["lat"][1])
            if faults_on and rng.random() < f.get("reorder", 0.0):
                lat += rng.randint(0, 4 * f["lat"][1])
            if faults_on and rng.random() < f["drop"]:
                self.at(self.t, "drop", msg["id"])
                continue
            self.at(self.t + lat, "deliver", msg["id"])
            if faults_on and rng.random() < f["dup"]:
                self.at(self.t, "dup", msg["id"])
            if faults_on and f["byz"] and msg["kind"] in ("push", "steps") and rng.random() < f["byz"]:
                self.at(self.t + rng.randint(0, 3 * f["lat"][1]), "byz", msg["id"])
        while sim.crashed_now:
            self.at(self.t + rng.randint(5, 200), "restart", sim.crashed_now.pop(0))
        if ev["k"] == "dup" and isinstance(out, str) and "." in out:
            lat = rng.randint(f["lat"][0], 3 * f["lat"][1])
            self.at(self.t + lat, "deliver", out)

    def run(self, max_events):
        sim, rng = self.sim, self.rng
        cfg = sim.cfg
        f = cfg["faults"]
        for cid in sorted(sim.clients):
            self.at(rng.randint(0, 5), "start", cid)
            self.at(rng.randint(10, 60), "think", cid)
        self.at(rng.randint(20, 100), "faultproc", None)
        horizon = cfg.get("horizon", 4000)
        while self.heap and self.eid < max_events:
            t, _, kind, data = heapq.heappop(self.heap)
            self.t = max(self.t, t)
            if self.t > horizon:
                break
            getattr(self, "h_" + kind)(data)
        self.drain()
        sim.virtual_ms = self.t
        sim.finish()

    def converged(self):
        sim = self.sim
        a = sim.auth
        if not a.up:
            return False
        for c in sim.clients.values():
            if not (c.up and c.joined and not c.unconfirmed and c.version == a.version):
                return False
            if tk.own_digest(c.doc) != tk.own_digest(a.doc):
                return False
        return True

    def drain(self):
        """bounded liveness (diagnostic): faults have stopped and nobody edits any more; within a
        bounded number of further events every client must have its steps confirmed and hold the
        authority's document"""
        sim = self.sim
        if not sim.cfg.get("drain"):
            return
        self.draining = True
        sim.cfg["quiet_after_events"] = 0
        sim.partitioned = set()
        self.stalled.clear()
        start = self.eid
        cap = sim.cfg.get("drain_events", 1500)
        while self.heap and self.eid - start < cap:
            if self.converged():
                break
            t, _, kind, data = heapq.heappop(self.heap)
            self.t = max(self.t, t)
            getattr(self, "h_" + kind)(data)
        ok = self.converged()
        sim.stats["drain.converged" if ok else "drain.not_converged"] += 1
        sim.stats["drain.events"] += self.eid - start
        sim.drain_events = self.eid - start
        if not ok:
            sim.diag("not_converged_after_drain")

    # ---- heap handlers
    def h_start(self, cid):
        self.emit({"k": "start", "party": cid})

    def h_restart(self, name):
        if name is None:
            return
        self.emit({"k": "restart", "party": name})

    def h_drop(self, mid):
        self.emit({"k": "drop", "msg": mid})

    def h_dup(self, mid):
        self.emit({"k": "dup", "msg": mid})

    def h_deliver(self, mid):
        sim = self.sim
        msg = sim.inflight.get(mid)
        if msg is None:
            return
        faults_on = self.faults_on()
        if faults_on and sim.partitioned and ((msg["src"] in sim.partitioned) != (msg["dst"] in sim.partitioned)):
            self.emit({"k": "drop", "msg": mid, "why": "partition"})
            return
        until = self.stalled.get(msg["dst"])
        if until is not None and until > self.t:
            self.at(until + self.rng.randint(0, 5), "deliver", mid)
            return
        self.emit({"k": "deliver", "msg": mid})

    def h_heal(self, _):
        self.emit({"k": "heal"})

    def h_byz(self, mid):
        sim, rng = self.sim, self.rng
        msg = sim.inflight.get(mid) or sim.archive.get(mid)
        if msg is None:
            return
        p = loads(msg["payload"])
        if not p["steps"]:
            return
        live = sim.live_docs()
        kind = rng.choice(["stale", "stale", "misroute", "dup", "corrupt", "corrupt", "reorder"])
        tgt = rng.choice(live)
        index = rng.randrange(len(p["steps"]))
        ev = {"k": "byz", "kind": kind, "msg": mid, "index": index, "target": [tgt[0], tgt[1]]}
        if kind == "corrupt":
            mut = {}
            for _ in range(rng.choice([1, 1, 2, 3])):
                mut.update(self.corruption(p["steps"][index], tgt[2]))
            if "slice" in mut and p["steps"][index].get("stepType") == "replaceAround" and rng.random() < 0.7:
                # keep the insertion point inside the swapped-in slice
                try:
                    sl = Slice.from_json(sim.schema, mut["slice"])
                    mut.setdefault("set", {})["insert"] = rng.randint(0, sl.size)
                except ValueError:
                    pass
            ev["mut"] = mut
        self.emit(ev)

    def corruption(self, sj, target):
        """field corruption that tries to stay inside C01's quantifier"""
        rng, sim = self.rng, self.sim
        size = target.content.size
        choice = rng.choice(["shift", "set", "structure", "slice", "mark", "value", "nearmiss", "nearmiss"])
        if choice == "nearmiss":
            # move one boundary by a token or two and re-align the far end so that the open depths
            # stay consistent: the step stays structurally plausible but wrong for the document
            fields = [f for f in ("from", "gapFrom", "gapTo", "to") if f in sj and isinstance(sj[f], int)]
            if not fields:
                return {}
            new = {f: sj[f] for f in fields}
            fld = rng.choice(fields)
            delta = rng.choice([-2, -1, 1, 1, 2])
            new[fld] = min(size, max(0, new[fld] + delta))
            # push the outer fields along instead of swapping values
            if delta > 0:
                for a, b in zip(fields, fields[1:]):
                    new[b] = max(new[b], new[a])
            else:
                for a, b in zip(reversed(fields[:-1]), reversed(fields[1:])):
                    new[a] = min(new[a], new[b])
            try:
                sl = Slice.from_json(sim.schema, sj.get("slice"))
                want = target.resolve(new["from"]).depth - sl.open_start + sl.open_end
                if rng.random() < 0.7:
                    for q in range(new["to"], min(size, new["to"] + 12) + 1):
                        if target.resolve(q).depth == want:
                            new["to"] = q
                            break
            except (ValueError, KeyError):
                pass
            out = {"set": new}
            if rng.random() < 0.5:
                out["structure"] = False
            return out
        if choice == "shift":
            return {"shift": rng.choice([-3, -2, -1, 1, 2, 3])}
        if choice == "set":
            fields = [f for f in ("from", "to", "gapFrom", "gapTo", "pos", "insert") if f in sj]
            if not fields:
                return {}
            fld = rng.choice(fields)
            if fld == "insert":
                return {"set": {"insert": max(0, sj["insert"] + rng.choice([-1, 1]))}}
            lo = 0
            hi = size
            order = ["from", "gapFrom", "gapTo", "to"]
            if fld in order:
                i = order.index(fld)
                for g in order[:i]:
                    if g in sj:
                        lo = max(lo, sj[g])
                for g in order[i + 1:]:
                    if g in sj:
                        hi = min(hi, sj[g])
            if lo > hi:
                return {}
            return {"set": {fld: rng.randint(lo, hi)}}
        if choice == "structure":
            return {"structure": rng.random() < 0.5}
        if choice == "slice":
            live = sim.live_docs()
            src = rng.choice(live)[2]
            try:
                sl = gen.rand_slice_from(rng, src)
            except ValueError:
                return {}
            return {"slice": sl.to_json() if sl.size else None}
        if choice == "mark":
            m = gen.rand_mark(rng, sim.schema)
            return {"mark": m.to_json()} if m is not None else {}
        if choice == "value":
            return {"value": rng.choice(gen.ATTR_MENU["meta"] + [1, 2, 3, "x"])}
        return {}

    def h_faultproc(self, _):
        sim, rng = self.sim, self.rng
        f = sim.cfg["faults"]
        self.at(self.t + rng.randint(20, 120), "faultproc", None)
        if sim.cfg.get("probe17"):
            cs = [c for c in sorted(sim.clients) if sim.clients[c].up and sim.clients[c].unconfirmed]
            for i in range(len(cs)):
                for j in range(i + 1, len(cs)):
                    if sim.clients[cs[i]].version == sim.clients[cs[j]].version:
                        self.emit({"k": "probe", "what": "c17pair", "a": cs[i], "b": cs[j]})
        if sim.cfg.get("probe17") and sim.auth.up and rng.random() < 0.7:
            D = sim.auth.doc
            ops = []
            tp = gen.text_positions(D)
            for _ in range(rng.randint(2, 4)):
                kinds = list(sim.cfg["mix"])
                kind = rng.choices(kinds, [sim.cfg["mix"][k] for k in kinds])[0]
                a = rng.choice(tp) if tp and rng.random() < 0.7 else gen.rand_pos(rng, D)
                b = a if rng.random() < 0.6 else min(D.content.size, a + rng.randint(1, 6))
                try:
                    with core.call_budget(COMMAND_CALL_BUDGET):
                        op = gen.gen_op(rng, kind, D, (a, b), [])
                except core.BudgetExceeded:
                    op = None
                if op is not None:
                    ops.append(op)
            if len(ops) >= 2:
                self.emit({"k": "probe", "what": "c17round", "base": ["auth", 0], "ops": ops})
        if sim.cfg.get("prop") == "C04" and sim.auth.up and sim.auth.version and rng.random() < 0.15:
            self.emit({"k": "probe", "what": "replay_from_zero"})
        if not self.faults_on():
            if sim.partitioned:
                self.emit({"k": "heal"})
            self.stalled.clear()
            return
        r = rng.random
        ups = [c for c in sorted(sim.clients) if sim.clients[c].up]
        if ups and r() < f["crash_client"]:
            cid = rng.choice(ups)
            site = rng.choice(["client.edit.add_step", "client.edit.add_step", "client.undo.add_step",
                               "client.rebase.add_step", "client.rebase.undo", "client.rebase.remote",
                               "client.rebase.reapply", "client.rebase.commit", "client.journal",
                               "client.journal_rewrite", "idle"])
            if site == "idle":
                self.emit({"k": "kill", "party": cid, "torn": r() < f["torn"]})
            else:
                self.emit({"k": "arm", "party": cid, "site": site, "after": rng.randint(0, 3),
                           "torn": r() < f["torn"]})
        if sim.auth.up and r() < f["crash_auth"]:
            site = rng.choice(["auth.after_apply", "auth.after_append", "auth.after_sync",
                               "auth.snapshot", "idle"])
            if site == "idle":
                self.emit({"k": "kill", "party": "auth", "torn": r() < f["torn"]})
            else:
                self.emit({"k": "arm", "party": "auth", "site": site, "after": rng.randint(0, 2),
                           "torn": r() < f["torn"]})
        if f["byz"] and r() < f["byz"]:
            live = sim.live_docs()
            tgt = rng.choice(live)
            pool = [d for (_, _, d) in live if d is not tgt[2]]
            steps = []
            for _ in range(rng.randint(2, 6)):
                try:
                    with core.call_budget(COMMAND_CALL_BUDGET):
                        sj = gen.gen_raw_step(rng, tgt[2], (0, 0), pool)
                except (core.BudgetExceeded, ValueError):
                    sj = None
                if sj is not None:
                    steps.append(sj)
            if steps:
                self.emit({"k": "byz", "kind": "fuzz", "target": [tgt[0], tgt[1]], "steps": steps})
        if r() < f["partition"]:
            if sim.partitioned:
                self.emit({"k": "heal"})
            else:
                names = sorted(sim.clients)
                k = rng.randint(1, max(1, len(names) - 1))
                self.emit({"k": "partition", "set": sorted(rng.sample(names, k))})
                self.at(self.t + rng.randint(50, 400), "heal", None)
        if r() < f["stall"]:
            who = rng.choice(["auth"] + sorted(sim.clients))
            self.stalled[who] = self.t + rng.randint(50, 300)
            sim.stats["stall"] += 1
        if r() < f["flush"]:
            self.emit({"k": "flush_caches"})
        if sim.cfg.get("bigdoc") and not getattr(self, "bigdoc_done", False) and r() < 0.3:
            self.bigdoc_done = True
            n = rng.choice([66000, 70000, 132000])
            a = rng.randint(1, 200)
            self.emit({"k": "bigdoc", "n": n, "from": a, "to": a + rng.choice([65530, 65536, 65600, n - 300]),
                       "second": rng.choice([0, 3])})
        if sim.auth.up and sim.auth.version and r() < f["translate"]:
            v = sim.auth.version
            v1, v2 = rng.randint(0, v), rng.randint(0, v)
            lo, hi = min(v1, v2), max(v1, v2)
            self.emit({"k": "translate", "v1": v1, "v2": v2, "mid": rng.randint(lo, hi),
                       "mode": rng.choice(["plain", "split", "roundtrip", "inverted"])})

    def h_think(self, cid):
        sim, rng = self.sim, self.rng
        cfg = sim.cfg
        c = sim.clients[cid]
        think = cfg.get("think", [5, 60])
        self.at(self.t + rng.randint(think[0], think[1]), "think", cid)
        until = self.stalled.get(cid)
        if until is not None and until > self.t:
            return
        if not c.up:
            return
        if not c.joined:
            if rng.random() < 0.2:
                self.emit({"k": "pull", "c": cid})
            return
        f = cfg["faults"]
        r = rng.random()
        # protocol actions
        if c.want_pull and r < 0.5:
            self.emit({"k": "pull", "c": cid})
            return
        if len(c.unconfirmed) > 14 and not self.draining and rng.random() < 0.8:
            # a long unconfirmed chain: stop typing, try to get it through first
            dl = self.push_deadline.get(cid)
            if dl is None or self.t >= dl:
                self.push_deadline[cid] = self.t + cfg.get("retry_ms", 150)
                self.emit({"k": "push", "c": cid})
            return
        if c.unconfirmed:
            dl = self.push_deadline.get(cid)
            if dl is None or self.t >= dl:
                if self.draining or rng.random() < cfg.get("push_p", 0.5):
                    self.push_deadline[cid] = self.t + cfg.get("retry_ms", 150)
                    self.emit({"k": "push", "c": cid})
                    return
        else:
            self.push_deadline.pop(cid, None)
        if self.draining:
            # nothing to send: poll now and then for missed broadcasts; otherwise wait for the ack
            if not c.unconfirmed and rng.random() < 0.15:
                self.emit({"k": "pull", "c": cid})
            elif c.unconfirmed and rng.random() < 0.03:
                self.emit({"k": "pull", "c": cid})
            return
        if rng.random() < cfg.get("pull_p", 0.05):
            self.emit({"k": "pull", "c": cid})
            return
        if rng.random() < f["reload"]:
            self.emit({"k": "reload", "c": cid})
            return
        if rng.random() < cfg.get("undo_p", 0.08):
            self.emit({"k": "undo", "c": cid})
            return
        if rng.random() < f["clipboard"]:
            a, b = gen.rand_range(rng, c.doc, 12)
            d1, d2 = gen.rand_range(rng, c.doc, 3)
            self.emit({"k": "clipboard", "c": cid, "from": a, "to": b, "dfrom": d1, "dto": d2})
            return
        if rng.random() < cfg.get("inspect_p", 0.05):
            ps = [gen.rand_pos(rng, c.doc) for _ in range(rng.randint(2, 4))]
            if rng.random() < 0.5:
                ps[0] = c.sel[0]
            self.emit({"k": "inspect", "c": cid, "pos": ps})
            return
        if rng.random() < cfg.get("anchor_p", 0.05):
            a, b = gen.rand_range(rng, c.doc, 10)
            self.emit({"k": "anchor", "c": cid, "from": a, "to": b})
            return
        tp = cfg.get("tenant_p", 0.0)
        if tp and sim.tenant_doc is not None and rng.random() < tp:
            self.gen_tenant()
            return
        self.gen_edit(c)

    TENANT_MIX = {"mark_any": 10, "mark_sweep": 4, "raw_step": 6, "add_mark": 4, "remove_mark": 2, "type": 5, "paste": 3,
                  "insert_node": 3, "set_block_type": 3, "split": 2, "join": 1, "set_node_attribute": 2,
                  "set_node_markup": 2, "delete": 2, "wrap": 1, "lift": 1, "mark_run": 2}

    def gen_tenant(self):
        sim, rng = self.sim, self.rng
        doc = sim.tenant_doc
        kinds = list(self.TENANT_MIX)
        weights = [self.TENANT_MIX[k] for k in kinds]
        size = doc.content.size
        if size > 160:
            a = rng.randint(0, size)
            self.emit({"k": "tenant", "ops": [{"op": "delete_range", "from": a, "to": min(size, a + size // 2)}]})
            return
        tpos = gen.text_positions(doc)
        a = rng.choice(tpos) if tpos else 0
        sel = (a, min(size, a + rng.choice([0, 0, 2, 6])))
        for _ in range(6):
            kind = rng.choices(kinds, weights)[0]
            try:
                with core.call_budget(COMMAND_CALL_BUDGET):
                    op = gen.gen_op(rng, kind, doc, sel, [])
            except core.BudgetExceeded:
                op = None
            if op is not None:
                ev = {"k": "tenant", "ops": [op]}
                if rng.random() < 0.25:
                    ev["reload"] = True
                self.emit(ev)
                return

    def gen_edit(self, c):
        sim, rng = self.sim, self.rng
        mix = sim.cfg["mix"]
        kinds = list(mix)
        weights = [mix[k] for k in kinds]
        pool = [d for (kind, _, d) in sim.live_docs() if d is not c.doc]
        # move the selection sometimes
        sel = c.sel
        ev_sel = None
        if rng.random() < sim.cfg.get("move_p", 0.3):
            tp = gen.text_positions(c.doc)
            if tp:
                a = rng.choice(tp)
                b = a if rng.random() < 0.6 else min(c.doc.content.size, a + rng.randint(1, 8))
                sel = (a, b)
                ev_sel = [a, b]
        size = c.doc.content.size
        sel = (min(sel[0], size), min(max(sel), size))
        if size > sim.cfg.get("size_cap", 260) and rng.random() < 0.7:
            # size governor: every oracle is at least linear in the document size; keep documents
            # at the size of a page by cutting a large range now and then
            a = rng.randint(0, size)
            b = min(size, a + rng.randint(size // 4, size // 2))
            self.emit({"k": "edit", "c": c.cid, "ops": [{"op": rng.choice(["delete", "delete_range"]),
                                                         "from": a, "to": b}]})
            return
        for _ in range(6):
            kind = rng.choices(kinds, weights)[0]
            try:
                with core.call_budget(COMMAND_CALL_BUDGET):
                    op = gen.gen_op(rng, kind, c.doc, sel, pool)
            except core.BudgetExceeded:
                sim.stats["gen.budget_exceeded"] += 1
                op = None
            if op is not None:
                ops = [op]
                if rng.random() < sim.cfg.get("multi_op_p", 0.2):
                    # a compound transaction: later commands are chosen against the document the
                    # earlier ones produce (computed on a scratch transform; the event stays concrete)
                    core_sim, core.CURRENT = core.CURRENT, None
                    try:
                        scratch = Transform(c.doc)
                        with core.call_budget(COMMAND_CALL_BUDGET):
                            gen.apply_op(scratch, op)
                            for _ in range(rng.randint(1, 2)):
                                k2 = rng.choices(kinds, weights)[0]
                                s2 = (min(sel[0], scratch.doc.content.size), min(sel[1], scratch.doc.content.size))
                                op2 = gen.gen_op(rng, k2, scratch.doc, s2, pool)
                                if op2 is None:
                                    break
                                gen.apply_op(scratch, op2)
                                ops.append(op2)
                    except (core.BudgetExceeded, gen.Refused, Exception):  # noqa: BLE001
                        pass
                    finally:
                        core.CURRENT = core_sim
                ev = {"k": "edit", "c": c.cid, "ops": ops}
                if ev_sel is not None:
                    ev["sel"] = ev_sel
                self.emit(ev)
                return
