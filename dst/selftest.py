"""Determinism self-test.

  python selftest.py digests PROP N BASE      -> prints "seed digest" lines (generate mode)
  python selftest.py                           -> full test: same seed twice in one process, replay
                                                  of the recorded trace, fresh interpreters under two
                                                  PYTHONHASHSEED values and two worker layouts; all
                                                  event-log digests must be identical.
"""
import os
import subprocess
import sys

import boot  # noqa: F401
import monitors
import runner

PROPS = monitors.ALL


def digests(prop, n, base, with_replay=False):
    out = []
    for i in range(n):
        seed = runner.seed_of(base, i)
        r = runner.run_generated(prop, "quick", seed, runner.load_known(), want_trace=with_replay)
        d = r["digest"]
        if r["internal"]:
            d = "INTERNAL"
        if with_replay and not r["violation"] and not r["internal"] and not r.get("aborted"):
            rr = runner.run_replay(prop, r["cfg"], r["trace"], runner.load_known())
            if rr["digest"] != d:
                d = "%s!=replay:%s" % (d, rr["digest"])
        out.append((seed, d))
    return out


def main():
    if len(sys.argv) > 1 and sys.argv[1] == "digests":
        prop, n, base = sys.argv[2], int(sys.argv[3]), int(sys.argv[4])
        for seed, d in digests(prop, n, base):
            print(seed, d)
        return 0
    n = int(os.environ.get("SELFTEST_N", "40"))
    bad = 0
    for prop in PROPS:
        a = digests(prop, n, 7, with_replay=True)
        b = digests(prop, n, 7)
        if a != b:
            bad += 1
            print("NONDETERMINISTIC in-process/replay", prop, [x for x, y in zip(a, b) if x != y][:3])
        outs = []
        for hs in ("0", "12345"):
            env = dict(os.environ, PYTHONHASHSEED=hs, PYTHONDONTWRITEBYTECODE="1")
            p = subprocess.run([sys.executable, "-B", os.path.abspath(__file__), "digests", prop, str(n), "7"],
                               env=env, capture_output=True, text=True, timeout=600)
            outs.append(p.stdout)
            if p.returncode != 0:
                print(p.stderr[-2000:])
        mine = "".join("%d %s\n" % (s, d) for s, d in b)
        if not (outs[0] == outs[1] == mine):
            bad += 1
            print("NONDETERMINISTIC across interpreters / PYTHONHASHSEED", prop)
            for l1, l2, l3 in zip(outs[0].splitlines(), outs[1].splitlines(), mine.splitlines()):
                if not (l1 == l2 == l3):
                    print("  ", l1, "|", l2, "|", l3)
                    break
        print("selftest %s: %d seeds x (2 in-process + replay + 2 fresh interpreters) %s" % (
            prop, n, "OK" if not bad else "FAILED"))
    return 1 if bad else 0


if __name__ == "__main__":
    sys.exit(main())
