"""Determinism self-test.

  python selftest.py digests PROP N BASE      -> prints "seed digest" lines (generate mode)
  python selftest.py                           -> full test: same seed twice in one process, replay
                                                  of the recorded trace, fresh interpreters under two
                                                  PYTHONHASHSEED values and two worker layouts; all
                                                  event-log digests must be identical.
"""
import os
import subprocess
import sys

import boot  # noqa: F401
import monitors
import runner

PROPS = monitors.ALL


def digests(prop, n, base, with_replay=False):
    out = []
    for i in range(n):
        seed = runner.seed_of(base, i)
        r = runner.run_generated(prop, "quick", seed, runner.load_known(), want_trace=with_replay)
        d = r["digest"]
        if r["internal"]:
            d = "INTERNAL"
        if with_replay and not r["violation"] and not r["internal"] and not r.get("aborted"):
            rr = runner.run_replay(prop, r["cfg"], r["trace"], runner.load_known())
            if rr["digest"] != d:
                d = "%s!=replay:%s" % (d, rr["digest"])
        out.append((seed, d))
    return out


def oracle_sanity():
    """the reference models on hand-computed cases (so that a vacuous oracle cannot hide)"""
    import refmap
    import schemas
    import tokens as tk
    import validity
    from boot import pm

    s = schemas.get("basic")
    doc = s.node("doc", None, [s.node("paragraph", None, [s.text("a\U0001F600")]), s.node("horizontal_rule")])
    t = tk.tokens(doc, "structural")
    assert t == [("o", "paragraph"), ("t", 97), ("t", 0xD83D), ("t", 0xDE00), ("c",), ("l", "horizontal_rule")], t
    assert len(t) == doc.content.size == 6
    ins = refmap.RMap([(2, 0, 4)])
    assert (ins.map(2, 1), ins.map(2, -1), ins.map(3, 1), ins.map(1, 1)) == (6, 2, 7, 1)
    dele = refmap.RMap([(2, 4, 0)])
    assert [dele.map(p, 1) for p in range(8)] == [0, 1, 2, 2, 2, 2, 2, 3]
    f = dele.detail(4, 1)[1]
    assert f["deleted"] and f["deleted_across"] and f["deleted_before"] and f["deleted_after"]
    assert not dele.detail(2, -1)[1]["deleted"] and dele.detail(2, 1)[1]["deleted"]
    assert dele.inverted().t == [(2, 0, 4)]
    two = refmap.RMap([(1, 1, 2), (5, 2, 0)])
    assert two.inverted().t == [(1, 2, 1), (6, 0, 2)] and two.ranges_old_new() == [(1, 2, 1, 3), (5, 7, 6, 6)]
    rt = refmap.RMapping([dele, dele.inverted()], [(0, 1)])
    assert [rt.map(p, 1) for p in range(8)] == list(range(8)), [rt.map(p, 1) for p in range(8)]
    plain = refmap.RMapping([dele, dele.inverted()])
    assert plain.map(4, 1) == 6 and plain.map(4, -1) == 2
    bad = s.node_type("code_block").create(None, [s.text("x", [s.mark("em")])])
    assert validity.problems(s.node_type("doc").create(None, [bad]))
    unsorted_ = s.text("x", None)
    unsorted_.marks = [s.mark("strong"), s.mark("em")]
    assert validity.problems(s.node_type("doc").create(None, [s.node_type("paragraph").create(None, [unsorted_])]))
    assert not validity.problems(doc)
    print("oracle sanity OK")


def main():
    if len(sys.argv) > 1 and sys.argv[1] == "oracles":
        oracle_sanity()
        return 0
    if len(sys.argv) > 1 and sys.argv[1] == "digests":
        prop, n, base = sys.argv[2], int(sys.argv[3]), int(sys.argv[4])
        for seed, d in digests(prop, n, base):
            print(seed, d)
        return 0
    n = int(os.environ.get("SELFTEST_N", "40"))
    oracle_sanity()
    bad = 0
    for prop in PROPS:
        a = digests(prop, n, 7, with_replay=True)
        b = digests(prop, n, 7)
        if a != b:
            bad += 1
            print("NONDETERMINISTIC in-process/replay", prop, [x for x, y in zip(a, b) if x != y][:3])
        outs = []
        for hs in ("0", "12345"):
            env = dict(os.environ, PYTHONHASHSEED=hs, PYTHONDONTWRITEBYTECODE="1")
            p = subprocess.run([sys.executable, "-B", os.path.abspath(__file__), "digests", prop, str(n), "7"],
                               env=env, capture_output=True, text=True, timeout=600)
            outs.append(p.stdout)
            if p.returncode != 0:
                print(p.stderr[-2000:])
        mine = "".join("%d %s\n" % (s, d) for s, d in b)
        if not (outs[0] == outs[1] == mine):
            bad += 1
            print("NONDETERMINISTIC across interpreters / PYTHONHASHSEED", prop)
            for l1, l2, l3 in zip(outs[0].splitlines(), outs[1].splitlines(), mine.splitlines()):
                if not (l1 == l2 == l3):
                    print("  ", l1, "|", l2, "|", l3)
                    break
        # two worker layouts of the parallel batch runner
        r3, _ = runner.batch(prop, "quick", 7, n, 600, 3)
        r7, _ = runner.batch(prop, "quick", 7, n, 600, 7)
        d3 = [(r["seed"], r["digest"]) for r in r3]
        d7 = [(r["seed"], r["digest"]) for r in r7]
        if not (d3 == d7 == b):
            bad += 1
            print("NONDETERMINISTIC across worker counts", prop)
        print("selftest %s: %d seeds x (2 in-process + replay + 2 fresh interpreters + 3 and 7 workers) %s" % (
            prop, n, "OK" if not bad else "FAILED"))
    return 1 if bad else 0


if __name__ == "__main__":
    sys.exit(main())
