"""Shared exception / result types and the apply-interposition seam."""
from boot import pt


class Violation(BaseException):
    """A claimed property was violated.  BaseException so that no `except Exception` in a stub or
    in the library can swallow it."""

    def __init__(self, prop, check, detail):
        super().__init__(f"{prop}/{check}")
        self.prop = prop
        self.check = check
        self.detail = detail


class SimCrash(BaseException):
    """Injected crash of a party at a crash point."""

    def __init__(self, party, site):
        super().__init__(f"crash {party}@{site}")
        self.party = party
        self.site = site


class Internal(Exception):
    """Harness error (never a property verdict)."""


class AbortRun(BaseException):
    """The run left the domain of the property being checked (e.g. a schema-invalid document was
    produced while C01 is not the property under check): stop it quietly and count it."""


class BudgetExceeded(BaseException):
    """Deterministic line-event budget ran out (C20 termination oracle)."""


# ---------------------------------------------------------------- apply interposition
# Every Step.apply in the process is routed through the current simulation run, like a system
# call table owned by the simulator.  No repo source is changed; with no run active the original
# method is called directly.

CURRENT = None
_ORIG = {}


def _wrap(cls):
    orig = cls.__dict__.get("apply")
    if orig is None or getattr(orig, "_dst_wrapped", False):
        return
    _ORIG[cls] = orig

    def apply(self, doc, _orig=orig):
        sim = CURRENT
        if sim is None:
            return _orig(self, doc)
        return sim.observed_apply(self, doc, _orig)

    apply._dst_wrapped = True
    cls.apply = apply


def install():
    from prosemirror.transform.doc_attr_step import DocAttrStep  # noqa: F401  (registers itself)
    from prosemirror.transform.step import STEPS_BY_ID

    for cls in list(STEPS_BY_ID.values()):
        _wrap(cls)


def raw_apply(step, doc):
    """Apply without observation (used by oracles that must not recurse)."""
    orig = _ORIG.get(type(step))
    if orig is None:
        return type(step).apply(step, doc)
    return orig(step, doc)


STEP_KINDS = ["replace", "replaceAround", "addMark", "removeMark", "addNodeMark", "removeNodeMark",
              "attr", "docAttr"]


def step_kind(step):
    return getattr(step, "json_id", type(step).__name__)


# ---------------------------------------------------------------- deterministic call budget
# Commands of the workload run library code outside the claimed properties (the fitter, the
# structure helpers).  A command that does not terminate must not hang the simulator, and wall
# clocks are not allowed to decide anything: count Python function entries (sys.monitoring,
# PY_START) and abort the command when the budget is exceeded.  Monitor code is not counted.

import sys as _sys

_MON = _sys.monitoring
_TOOL = _MON.PROFILER_ID
_state = {"count": 0, "limit": 0, "paused": 0, "active": False, "registered": False}


def _on_py_start(code, offset):
    st = _state
    if st["paused"]:
        return None
    st["count"] += 1
    if st["count"] > st["limit"]:
        st["count"] = -10 ** 12  # fire once
        raise BudgetExceeded()
    return None


class call_budget:
    def __init__(self, limit):
        self.limit = limit

    def __enter__(self):
        if _state["active"]:
            self.nested = True
            return self
        self.nested = False
        if not _state["registered"]:
            _MON.use_tool_id(_TOOL, "dst-call-budget")
            _MON.register_callback(_TOOL, _MON.events.PY_START, _on_py_start)
            _state["registered"] = True
        _state.update(count=0, limit=self.limit, paused=0, active=True)
        _MON.set_events(_TOOL, _MON.events.PY_START)
        return self

    def __exit__(self, *exc):
        if not self.nested:
            _MON.set_events(_TOOL, 0)
            _state["active"] = False
        return False


class budget_paused:
    def __enter__(self):
        _state["paused"] += 1

    def __exit__(self, *exc):
        _state["paused"] -= 1
        return False
