"""./check <ID> [--tier quick|thorough] [--replay FILE] [--runs N] [--budget SECONDS] [--seed N]

exit 0: property held on everything explored (KNOWN-FINDING lines allowed)
exit 1: VIOLATION property=<id> replay=<path>
exit 2: INTERNAL ... (harness error, timeout, non-replaying failure, reach probe at zero)
"""
import argparse
import json
import os
import sys
import time
from collections import Counter

import boot  # noqa: F401  (puts the repo on sys.path)
import runner

VERIF = boot.VERIF
# mutant / seeded-change runs must not overwrite the committed evidence and replays
OUT = os.environ.get("VERIF_OUT") or VERIF

LEVEL = {"C01": "fault_enumeration"}
TIERS = {
    "quick": {"runs": 1600, "budget": 40},
    "thorough": {"runs": 40000, "budget": 720},
}
# quick tier sized so that each check takes about 20-30 s on 16 cores
QUICK_RUNS = {"C01": 4000, "C03": 3000, "C04": 2500, "C05": 3500, "C08": 1000, "C10": 1400, "C16": 3000,
              "C17": 5000, "C20": 3000}
THOROUGH_RUNS = {"C08": 25000, "C10": 25000}

# probes that must be non-zero for a batch to count as having explored the property
REACH = {
    "C01": ["C01.outcome:valid", "C01.outcome:failed", "C01.stale_kind:replace", "C01.stale_kind:replaceAround",
            "C01.stale_kind:addMark", "stats:byz.ok", "stats:rebase"],
    "C03": ["C03.kind:replace", "C03.kind:replaceAround", "C03.kind:addMark", "C03.kind:attr", "stats:rebase"],
    "C04": ["C04.tr:ok", "C04.tr:refused", "C04.rebase_undo_checked", "C04.rebased_undo_checked",
            "C04.recovered_versions", "C04.single:replace", "C04.single:replaceAround", "C04.replays_from_zero"],
    "C05": ["C05.wire_kind:replace", "C05.wire_kind:replaceAround", "C05.wire_kind:addMark",
            "C05.wire_kind:removeMark", "C05.wire_kind:addNodeMark", "C05.wire_kind:removeNodeMark",
            "C05.wire_kind:attr", "C05.wire_kind:docAttr", "C05.twin_applications", "C05.docs", "C05.slices"],
    "C08": ["C08.single:1_ranges", "C08.single:2_ranges", "C08.rebase_mappings_with_mirrors",
            "C08.neighbour_rebases", "C08.mirror_roundtrips", "C08.touches_checked", "C08.histories"],
    "C10": ["C10.retained:doc", "C10.retained:step", "C10.retained:transform", "stats:rebase"],
    "C16": ["C16.merge:replace.append", "C16.merge:replace.prepend", "C16.merge:addMark", "C16.other_docs"],
    "C17": ["C17.site:rebase", "C17.site:round", "stats:rebase"],
    "C20": ["C20.pairs_sharing_children", "C20.equal_pairs", "C20.pairs_with_astral_text", "C20.site:edit"],
}

RULES = {
    "C01": "case = one Step.apply judged inside C01's quantifier (positions in range and ordered, payload cut from a valid document of the same schema); distinct by (step JSON, document digest); non-trivial = the step was made for a different document than it is applied to (rebased, remapped-undo, stale/duplicated/misrouted/corrupted byzantine application)",
    "C03": "case = one successful Step.apply with its map checked against the flat token view; distinct by (step JSON, document digest); non-trivial = the map has at least one range",
    "C04": "case = one finished transform (bookkeeping + replay + exact undo), one single-step inverse check, one rebase undo phase, one recovered version or one journal-replayed step; distinct by (steps, start document) or (site, version, digest); non-trivial = at least one step / a replace-family step",
    "C05": "case = one object crossing the simulated wire or store as JSON bytes (step, document, slice, fragment, mark set) or one application of a decoded step next to its original; distinct by JSON digest (and target document digest for twin applications)",
    "C08": "case = one step map (forward and inverted) checked at every position and both sides, or one mapping (transform history, rebase mapping with mirrors, undo remapping, authority translation) checked against R2 and the R2-free laws; distinct by the explicit range triples and mirror pairs; non-trivial = has at least one range / at least one mirror pair for rebase mappings",
    "C10": "case = one digest comparison of a retained object after an event; distinct_nontrivial counts distinct (event kind, retained-set size, authority digest) instants at which more than 5 retained objects were re-examined",
    "C16": "case = one mergeable consecutive pair evaluated on one document (its base document or another live document on which the pair applies); distinct by (s1 JSON, s2 JSON, document digest)",
    "C17": "case = one separated pair of steps with the same base document, both delivery orders executed; distinct by (a JSON, b JSON, base digest); non-trivial = both steps change the document",
    "C20": "case = one (a, b) fragment pair given to find_diff_start and find_diff_end under a line-event budget; distinct by (digest a, digest b); non-trivial = the two differ",
}

COMPONENTS = {
    "real_code": ["prosemirror.model (Node, Fragment, Slice, Mark, Schema, ContentMatch, ResolvedPos, diff, to_dom/from_dom)",
                  "prosemirror.transform (all 8 Step types: apply/invert/map/merge/get_map/to_json/from_json; StepMap; Mapping; Transform and all high-level operations; structure helpers)"],
    "stubs": ["collab protocol glue (port of prosemirror-collab rebaseSteps/receiveTransaction, authority accept/broadcast)",
              "network (latency, loss, duplication, reordering, partitions)", "durable store (framed records, sync, torn/lost tail)",
              "virtual clock", "undo-history bookkeeping", "workload / command selection"],
}


def write_evidence(prop, tier, seed, results, wall, violations, known_lines, internal, extra=None):
    evals = Counter()
    distinct = set()
    samples = []
    stats = Counter()
    probes = Counter()
    diags = Counter()
    states = set()
    inter = set()
    events = 0
    vms = 0
    faultcfg = Counter()
    for r in results:
        for k, v in r["evals"].items():
            evals[k] += v
        for x in r["distinct"].get(prop, []):
            distinct.add(x)
        for s in r["samples"].get(prop, []):
            if len(samples) < 4:
                samples.append(s)
        stats.update(r["stats"])
        probes.update(r["probes"])
        diags.update(r["diags"])
        states.update(r["states"])
        if r.get("interleaving"):
            inter.add(r["interleaving"])
        events += r["events"]
        vms += r["virtual_ms"]
        for k in r.get("fault_kinds", []):
            faultcfg[k] += 1
    runs = len([r for r in results if r["seed"] is not None])
    aborted = Counter(r.get("aborted") for r in results if r.get("aborted"))
    fired = {
        "message_dropped": stats["net.dropped"], "message_duplicated": stats["net.duplicated"],
        "partitions": stats["net.partitions"], "delivered_to_down_party": stats["net.to_down_party"],
        "stalls": stats["stall"], "crashes": {k[6:]: v for k, v in stats.items() if k.startswith("crash:")},
        "store_lost_unsynced_records": stats["store.lost_unsynced"], "store_torn_records": stats["store.torn"],
        "authority_recoveries": stats["auth.recovered"], "client_journal_recoveries": stats["client.journal_recovered"],
        "byzantine_applications": {k[12:]: v for k, v in stats.items() if k.startswith("byz.applied:")},
        "byzantine_out_of_domain_not_judged": stats["byz.out_of_domain"],
        "cache_flushes": stats["ev:flush_caches"], "reloads": stats["ev:reload"],
    }
    ev = {
        "property_id": prop,
        "tier": tier,
        "seed": seed,
        "level": LEVEL.get(prop, "exploration"),
        "coverage": {
            "evaluations": int(evals[prop]),
            "distinct_nontrivial": len(distinct),
            "rule": RULES[prop],
            "samples": samples or [{"note": "no sample recorded"}],
            "runs": runs,
            "events": events,
            "runs_per_hour": int(runs / wall * 3600) if wall > 0 else 0,
            "seeds_per_hour": int(runs / wall * 3600) if wall > 0 else 0,
            "virtual_seconds_covered": round(vms / 1000.0, 1),
            "virtual_time_note": "time exists only in the stub (latency, think time, retry timeout, partition/stall windows); the library reads no clock",
            "faults_fired": fired,
            "fault_kinds_enabled_in_runs": dict(faultcfg),
            "crash_point_hits": {k[5:]: v for k, v in stats.items() if k.startswith("site:")},
            "reach_probes": {k: v for k, v in sorted(probes.items())},
            "distinct_system_states": len(states),
            "distinct_interleavings": len(inter),
            "refused_commands": {k[8:]: v for k, v in stats.items() if k.startswith("refused:")},
            "protocol_diagnostics": dict(diags),
            "bounded_liveness_after_faults_stop": {
                "runs_drained": stats["drain.converged"] + stats["drain.not_converged"],
                "converged": stats["drain.converged"], "not_converged_within_cap": stats["drain.not_converged"],
                "mean_events_to_converge": round(stats["drain.events"] / max(1, stats["drain.converged"] + stats["drain.not_converged"]), 1),
                "cap_events": 1500,
                "note": "diagnostic of the stub protocol on top of the library, not a property verdict"},
            "runs_aborted_outside_domain": dict(aborted),
            "rebases": stats["rebase"],
            "applications": stats["apply"],
            "components": COMPONENTS,
            "known_findings_reported": known_lines,
            "internal": internal,
        },
        "assumptions": [
            "CPython, json, the harness itself",
            "Node.check() (the library's own validity check; C06/C07 are not claimed) is trusted where a verdict needs 'is this document schema-valid'",
            "sampling, not enumeration: a clean batch is evidence, not proof",
            "collab glue, network, store and clock are stubs written for this harness",
        ],
        "wall_s": round(wall, 2),
        "violations": violations,
    }
    if extra:
        ev["coverage"].update(extra)
    os.makedirs(os.path.join(OUT, "evidence"), exist_ok=True)
    with open(os.path.join(OUT, "evidence", prop + ".json"), "w") as f:
        json.dump(ev, f, indent=1, sort_keys=True, default=repr)
    return probes, stats


def report_violation(prop, r, known):
    """shrink, write the replay file, confirm it replays in this process; returns path or None"""
    target = r["violation"]
    cfg, trace, replays, ok = runner.shrink(prop, r["cfg"], r["trace"], target, known)
    final = runner.run_replay(prop, cfg, trace, known)
    os.makedirs(os.path.join(OUT, "replays"), exist_ok=True)
    path = os.path.join(OUT, "replays", "%s-seed%d.json" % (prop, r["seed"]))
    data = {
        "property": prop, "seed": r["seed"], "cfg": cfg, "trace": trace,
        "violation": final["violation"] or target, "digest": final["digest"],
        "original_events": len(r["trace"]), "minimised_events": len(trace), "shrink_replays": replays,
    }
    with open(path, "w") as f:
        json.dump(data, f, indent=1, default=repr)
    if not ok or not runner.same_failure(final, target):
        return path, False
    return path, True


def do_replay(prop, path):
    with open(path) as f:
        data = json.load(f)
    if data.get("cold_start"):
        import coldstart

        v, err, _ = coldstart.probe(data["wal"])
        if err:
            print("INTERNAL " + err)
            return 2
        if v:
            print("replayed: C05/%s" % v["check"])
            print(json.dumps({k: x for k, x in v["detail"].items() if k != "wal"}, indent=1, default=repr)[:4000])
            print("VIOLATION property=%s replay=%s" % (prop, path))
            return 1
        print("replay did not violate %s (cold-start log replayed identically)" % prop)
        return 0
    known = runner.load_known()
    res = runner.run_replay(prop, data["cfg"], data["trace"], known)
    if res["internal"]:
        print("INTERNAL replay raised:\n" + res["internal"])
        return 2
    v = res["violation"]
    if v:
        print("replayed: %s/%s digest=%s" % (v["prop"], v["check"], res["digest"]))
        print(json.dumps(v["detail"], indent=1, default=repr)[:6000])
        same = data.get("digest") == res["digest"]
        print("digest %s recorded digest" % ("matches" if same else "DIFFERS from"))
        print("VIOLATION property=%s replay=%s" % (prop, path))
        return 1
    print("replay did not violate %s (digest %s)" % (prop, res["digest"]))
    return 0


def main():
    ap = argparse.ArgumentParser()
    ap.add_argument("prop")
    ap.add_argument("--tier", default=os.environ.get("VERIF_TIER", "quick"))
    ap.add_argument("--replay")
    ap.add_argument("--runs", type=int)
    ap.add_argument("--budget", type=float)
    ap.add_argument("--seed", type=int, default=int(os.environ.get("VERIF_SEED", "1") or 1))
    ap.add_argument("--workers", type=int, default=int(os.environ.get("VERIF_WORKERS", "16")))
    a = ap.parse_args()
    prop = a.prop
    if prop not in RULES:
        print("INTERNAL unknown property " + prop)
        return 2
    if a.replay:
        return do_replay(prop, a.replay)
    tier = a.tier if a.tier in TIERS else "quick"
    runs = a.runs or (QUICK_RUNS if tier == "quick" else THOROUGH_RUNS).get(prop, TIERS[tier]["runs"])
    budget = a.budget or TIERS[tier]["budget"]
    if not a.budget and tier == "quick" and prop == "C08":
        budget = 30  # C08 runs are the heaviest (every mapping law on every history); single runs can take 10 s+
    print("check %s tier=%s VERIF_SEED=%d runs<=%d budget=%ss workers=%d repo=%s" % (
        prop, tier, a.seed, runs, budget, a.workers, boot.REPO))
    t0 = time.time()
    results, known = runner.batch(prop, tier, a.seed, runs, budget, a.workers)
    wall = time.time() - t0
    internal = [r["internal"] for r in results if r["internal"]]
    viols = [r for r in results if r["violation"]]
    known_hits = Counter()
    for r in results:
        known_hits.update(r["known_hits"])
    known_lines = []
    for k in known:
        if k.get("status") == "known" and k["property"] == prop:
            line = "KNOWN-FINDING: property=%s [%s] %s (met %d times in this run)" % (
                prop, k["id"], k["what"], known_hits.get(k["id"], 0))
            known_lines.append(line)
            print(line)
    rc = 0
    out_lines = []
    seen_sig = set()
    for r in viols:
        v = r["violation"]
        sig = (v["check"], v["detail"].get("shape"))
        if sig in seen_sig:
            continue
        seen_sig.add(sig)
        if len(seen_sig) > 3:
            break
        path, ok = report_violation(prop, r, known)
        if not ok:
            internal.append("violation %s/%s seed %s did not replay from %s" % (v["prop"], v["check"], r["seed"], path))
            continue
        print("violation %s/%s shape=%s seed=%d" % (prop, v["check"], v["detail"].get("shape"), r["seed"]))
        out_lines.append("VIOLATION property=%s replay=%s" % (prop, path))
        rc = 1
    cold_info = None
    if prop == "C05":
        import coldstart

        cv, cerr, cold_info = coldstart.probe()
        if cerr:
            internal.append(cerr)
        elif cv:
            os.makedirs(os.path.join(OUT, "replays"), exist_ok=True)
            cpath = os.path.join(OUT, "replays", "C05-coldstart.json")
            with open(cpath, "w") as f:
                json.dump({"property": "C05", "cold_start": True, "wal": cv["detail"]["wal"],
                           "violation": {"prop": "C05", "check": cv["check"],
                                         "detail": {k: x for k, x in cv["detail"].items() if k != "wal"}}},
                          f, indent=1, default=repr)
            # confirm it replays before reporting it
            v2, e2, _ = coldstart.probe(cv["detail"]["wal"])
            if v2 and v2["check"] == cv["check"]:
                print("violation C05/%s shape=%s (fresh process replaying a log of all eight step types)" % (
                    cv["check"], cv["detail"].get("shape")))
                out_lines.append("VIOLATION property=C05 replay=%s" % cpath)
                rc = 1
            else:
                internal.append("cold-start violation did not replay from " + cpath)
    probes, stats = write_evidence(prop, tier, a.seed, results, wall, len(out_lines), known_lines, internal[:3],
                                   extra={"cold_start_restart_probe": cold_info} if cold_info else None)
    runs_done = len([r for r in results if r["seed"] is not None])
    print("runs=%d events=%d wall=%.1fs evaluations=%d" % (
        runs_done, sum(r["events"] for r in results), wall, sum(r["evals"].get(prop, 0) for r in results)))
    for line in out_lines:
        print(line)
    if rc == 1:
        return 1
    if internal:
        print("INTERNAL " + internal[0][-3000:])
        return 2
    missing = []
    for p in REACH[prop]:
        val = stats.get(p[6:], 0) if p.startswith("stats:") else probes.get(p, 0)
        if not val:
            missing.append(p)
    if missing and runs_done >= 300:
        print("INTERNAL reach probes at zero: " + ", ".join(missing))
        return 2
    if missing:
        print("NOTE only %d runs fit into the wall-clock budget; reach probes still at zero: %s" % (
            runs_done, ", ".join(missing)))
    print("OK property=%s held on everything explored" % prop)
    return 0


if __name__ == "__main__":
    sys.exit(main())
