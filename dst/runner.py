"""Run batches of seeded simulations in parallel, shrink and replay failures, write evidence."""
import faulthandler
import hashlib
import json
import multiprocessing
import os
import sys
import time
import traceback
from collections import Counter
from concurrent.futures import ProcessPoolExecutor

import boot
import core
import monitors
import sim as simmod
import swarm

VERIF = boot.VERIF
RUN_TIMEOUT_S = int(os.environ.get("VERIF_RUN_TIMEOUT", "600"))  # wall-clock backstop per run (a run normally takes 5-200 ms); never a verdict


class RunTimeout(BaseException):
    pass


def load_known():
    p = os.path.join(VERIF, "known_findings.json")
    if not os.path.exists(p):
        return []
    with open(p) as f:
        return json.load(f).get("findings", [])


def seed_of(base, i):
    return (base * 1000003 + i * 7919 + 17) % (2 ** 31 - 1)


# ------------------------------------------------------------------------------- one run

def singletons_dirty():
    """process-wide shared empties: a corruption by one run must not leak into the next"""
    pm, pt = boot.pm, boot.pt
    out = []
    if pm.Mark.none:
        out.append("Mark.none")
    if pm.Fragment.empty.content or pm.Fragment.empty.size:
        out.append("Fragment.empty")
    if pm.Slice.empty.content is not pm.Fragment.empty or pm.Slice.empty.open_start or pm.Slice.empty.open_end:
        out.append("Slice.empty")
    if len(pt.StepMap.empty.ranges) or pt.StepMap.empty.inverted:
        out.append("StepMap.empty")
    return out


def restore_singletons():
    pm, pt = boot.pm, boot.pt
    del pm.Mark.none[:]
    del pm.Fragment.empty.content[:]
    pm.Fragment.empty.size = 0
    pm.Slice.empty.content = pm.Fragment.empty
    pm.Slice.empty.open_start = pm.Slice.empty.open_end = 0
    if isinstance(pt.StepMap.empty.ranges, list):
        del pt.StepMap.empty.ranges[:]
    else:
        pt.StepMap.empty.ranges = type(pt.StepMap.empty.ranges)()
    pt.StepMap.empty.inverted = False


def setup_violation(prop, seed, tier, dirty):
    return {"seed": seed, "violation": {"prop": "C10", "check": "mutated.singleton_during_setup",
                                        "detail": {"shape": dirty[0], "dirty": dirty,
                                                   "note": "building the run's initial document and configuration "
                                                           "(pure library calls on fresh objects) changed a "
                                                           "process-wide shared empty"}},
            "internal": None, "cfg": {"setup_only": True, "seed": seed, "tier": tier, "prop": prop},
            "trace": [], "stats": {}, "probes": {}, "evals": {"C10": 1}, "distinct": {}, "samples": {},
            "known_hits": {}, "diags": {}, "events": 0, "virtual_ms": 0, "digest": "setup", "states": []}


# Hermetic runs: every run (generated or replayed) executes in a forked child of a process that has
# only *imported* the library and the harness.  Whatever a run leaves behind in process-wide state -
# the library's caches and shared empties, but also any state a changed library keeps that this
# harness knows nothing about (memo tables keyed by names, ids, ...) - dies with the child, so a
# run's outcome is a function of (seed, code) alone and a replay in a fresh interpreter starts from
# the same state as the run that found the violation.  VERIF_HERMETIC=0 runs in-process (debugging).
HERMETIC = os.environ.get("VERIF_HERMETIC", "1") != "0"


def prewarm():
    """Part of the fixed post-import state every run process is forked from (and every fresh
    interpreter reaches before a replay): the schema objects used to draw configurations."""
    import schemas

    for n in schemas.NAMES:
        schemas.get(n)
        schemas.twin(n)


prewarm()


def _in_child(fn, args):
    import pickle
    import signal

    if not HERMETIC:
        return fn(*args)
    r, w = os.pipe()
    sys.stdout.flush()
    sys.stderr.flush()
    pid = os.fork()
    if pid == 0:
        code = 1
        try:
            os.close(r)

            def on_alarm(signum, frame):
                raise RunTimeout()

            signal.signal(signal.SIGALRM, on_alarm)
            signal.alarm(RUN_TIMEOUT_S)
            faulthandler.dump_traceback_later(RUN_TIMEOUT_S + 120, exit=True)
            try:
                res = fn(*args)
            finally:
                signal.alarm(0)
                faulthandler.cancel_dump_traceback_later()
            data = pickle.dumps(res, protocol=pickle.HIGHEST_PROTOCOL)
            with os.fdopen(w, "wb") as f:
                f.write(data)
            code = 0
        except BaseException:  # noqa: BLE001
            try:
                os.write(w, pickle.dumps({"__child_error__": traceback.format_exc()}))
            except Exception:  # noqa: BLE001
                pass
        finally:
            os._exit(code)
    os.close(w)
    chunks = []
    while True:
        b = os.read(r, 1 << 20)
        if not b:
            break
        chunks.append(b)
    os.close(r)
    _, status = os.waitpid(pid, 0)
    err = None
    res = None
    if chunks:
        try:
            res = pickle.loads(b"".join(chunks))
        except Exception as e:  # noqa: BLE001
            err = "unreadable result from run process: %r" % (e,)
    if isinstance(res, dict) and "__child_error__" in res:
        err = res["__child_error__"]
        res = None
    if res is None:
        err = err or "run process ended without a result (wait status %r)" % (status,)
        return {"seed": None, "violation": None, "internal": err, "stats": {}, "probes": {}, "evals": {},
                "distinct": {}, "samples": {}, "known_hits": {}, "diags": {}, "events": 0, "virtual_ms": 0,
                "states": [], "aborted": None, "digest": None}
    return res


def run_generated(prop, tier, seed, known, want_trace=False):
    r = _in_child(_run_generated, (prop, tier, seed, known, want_trace))
    if r.get("seed") is None:
        r["seed"] = seed
    return r


def run_replay(prop, cfg, trace, known, on=None):
    return _in_child(_run_replay, (prop, cfg, trace, known, on))


def _run_generated(prop, tier, seed, known, want_trace=False):
    import schemas

    schemas.restore_defaults()
    if singletons_dirty():
        restore_singletons()
    try:
        cfg = swarm.make_cfg(seed, prop, tier)
    except Exception:  # noqa: BLE001
        dirty = singletons_dirty()
        if dirty and prop == "C10":
            restore_singletons()
            return setup_violation(prop, seed, tier, dirty)
        raise
    dirty = singletons_dirty()
    if dirty:
        restore_singletons()
        if prop == "C10":
            return setup_violation(prop, seed, tier, dirty)
    mon = monitors.Monitors([prop], known)
    s = None
    res = {"seed": seed, "cfg_schema": cfg["schema"], "violation": None, "internal": None}
    try:
        s = simmod.Sim(cfg, mon, seed=seed)
        g = simmod.Generator(s)
        g.run(cfg["max_events"])
    except core.Violation as v:
        res["violation"] = {"prop": v.prop, "check": v.check, "detail": v.detail}
    except core.AbortRun as a:
        res["aborted"] = str(a)
    except RunTimeout:
        res["internal"] = "timeout: run seed=%d exceeded the %ds wall-clock backstop\n%s" % (
            seed, RUN_TIMEOUT_S, traceback.format_exc()[-1500:])
    except Exception:  # noqa: BLE001
        res["internal"] = traceback.format_exc()
    finally:
        core.CURRENT = None
    collect(res, s, mon, cfg)
    if res["violation"] or want_trace:
        res["cfg"] = cfg
        res["trace"] = s.trace if s else []
    # keep child->parent traffic small
    res["distinct"] = {k: [hashlib.sha1(repr(x).encode()).hexdigest()[:12] for x in v]
                       for k, v in res["distinct"].items()}
    return res


def _run_replay(prop, cfg, trace, known, on=None):
    import schemas

    schemas.restore_defaults()
    if singletons_dirty():
        restore_singletons()
    if cfg.get("setup_only"):
        try:
            swarm.make_cfg(cfg["seed"], cfg["prop"], cfg["tier"])
        except Exception:  # noqa: BLE001
            pass
        dirty = singletons_dirty()
        if dirty:
            restore_singletons()
            return setup_violation(cfg["prop"], cfg["seed"], cfg["tier"], dirty)
        return {"seed": None, "violation": None, "internal": None, "stats": {}, "probes": {}, "evals": {},
                "distinct": {}, "samples": {}, "known_hits": {}, "diags": {}, "events": 0, "virtual_ms": 0,
                "digest": "setup", "states": []}
    mon = monitors.Monitors(on or [prop], known)
    s = None
    res = {"seed": None, "violation": None, "internal": None}
    try:
        s = simmod.Sim(cfg, mon, seed=None)
        s.replay(trace)
    except core.Violation as v:
        res["violation"] = {"prop": v.prop, "check": v.check, "detail": v.detail}
    except core.AbortRun as a:
        res["aborted"] = str(a)
    except Exception:  # noqa: BLE001
        res["internal"] = traceback.format_exc()
    finally:
        core.CURRENT = None
    collect(res, s, mon, cfg)
    return res


def collect(res, s, mon, cfg):
    res["stats"] = dict(s.stats) if s else {}
    res["probes"] = dict(mon.probes)
    res["evals"] = dict(mon.evals)
    res["distinct"] = {k: list(v)[:20000] for k, v in mon.distinct.items()}
    res["samples"] = mon.samples
    res["known_hits"] = dict(mon.known_hits)
    res["diags"] = dict(s.diags) if s else {}
    res["events"] = len(s.trace) if s else 0
    res.setdefault("aborted", None)
    res["virtual_ms"] = getattr(s, "virtual_ms", 0) if s else 0
    res["digest"] = s.digest() if s else None
    res["states"] = list(s.states_seen)[:5000] if s else []
    if s:
        il = hashlib.sha1(" ".join("%s:%s" % (e["k"], e.get("c") or e.get("party") or "") for e in s.trace)
                          .encode()).hexdigest()[:16]
        res["interleaving"] = il
        res["fault_kinds"] = cfg.get("fault_kinds", [])


# ------------------------------------------------------------------------------- shrinking

def same_failure(res, target):
    v = res.get("violation")
    return bool(v) and v["prop"] == target["prop"] and v["check"] == target["check"]


def shrink(prop, cfg, trace, target, known, max_replays=400):
    """ddmin over the event list, then single-event removal, then simplification passes."""
    replays = [0]

    def fails(tr, c=cfg):
        replays[0] += 1
        return same_failure(run_replay(prop, c, tr, known), target)

    if not fails(trace):
        return cfg, trace, replays[0], False
    # cut everything after the failing event (the run stopped there anyway)
    n = 2
    cur = list(trace)
    while len(cur) >= 2 and replays[0] < max_replays:
        chunk = max(1, len(cur) // n)
        removed = False
        i = 0
        while i < len(cur) and replays[0] < max_replays:
            cand = cur[:i] + cur[i + chunk:]
            if cand and fails(cand):
                cur = cand
                removed = True
            else:
                i += chunk
        if not removed:
            if chunk == 1:
                break
            n = min(len(cur), n * 2)
    # simplification: drop ops' optional parts, fewer clients
    c2 = dict(cfg)
    used = {e.get("c") or e.get("party") for e in cur} | {e.get("a") for e in cur} | {e.get("b") for e in cur}
    for n_cl in range(1, cfg["n_clients"]):
        if all((("c%d" % k) not in used) for k in range(n_cl, cfg["n_clients"])):
            c3 = dict(cfg, n_clients=n_cl)
            if replays[0] < max_replays and fails(cur, c3):
                c2 = c3
            break
    # shorten texts
    for idx, ev in enumerate(cur):
        if replays[0] >= max_replays:
            break
        if ev["k"] == "edit":
            for op in ev["ops"]:
                if op.get("op") == "type" and len(op.get("text", "")) > 1:
                    new_op = dict(op, text=op["text"][:1])
                    cand = cur[:idx] + [dict(ev, ops=[new_op])] + cur[idx + 1:]
                    if fails(cand, c2):
                        cur = cand
    return c2, cur, replays[0], True


# ------------------------------------------------------------------------------- batch

def _worker(args):
    import signal

    prop, tier, seeds, known, deadline = args
    faulthandler.enable()

    def on_alarm(signum, frame):
        raise RunTimeout()

    signal.signal(signal.SIGALRM, on_alarm)
    out = []
    for seed in seeds:
        if time.time() > deadline:
            break
        # the wall-clock backstop (Python-level alarm first, hard exit if that cannot fire) is armed
        # inside the run's own process
        t0 = time.time()
        if HERMETIC:
            r = run_generated(prop, tier, seed, known)
        else:
            signal.alarm(RUN_TIMEOUT_S)
            faulthandler.dump_traceback_later(RUN_TIMEOUT_S + 120, exit=True)
            try:
                r = run_generated(prop, tier, seed, known)
            finally:
                signal.alarm(0)
                faulthandler.cancel_dump_traceback_later()
        r["wall"] = time.time() - t0
        out.append(r)
        if r["violation"] or r["internal"]:
            break
    return out


def batch(prop, tier, base_seed, n_runs, budget_s, workers):
    known = load_known()
    seeds = [seed_of(base_seed, i) for i in range(n_runs)]
    deadline = time.time() + budget_s
    chunk = 8
    jobs = [(prop, tier, seeds[i:i + chunk], known, deadline) for i in range(0, len(seeds), chunk)]
    results = []
    ctx = multiprocessing.get_context("fork")
    with ProcessPoolExecutor(max_workers=workers, mp_context=ctx) as ex:
        futs = [ex.submit(_worker, j) for j in jobs]
        for f in futs:
            try:
                results.extend(f.result(timeout=budget_s + RUN_TIMEOUT_S + 60))
            except Exception as e:  # noqa: BLE001
                results.append({"seed": None, "violation": None, "internal": "worker died: %r" % (e,),
                                "stats": {}, "probes": {}, "evals": {}, "distinct": {}, "samples": {},
                                "known_hits": {}, "diags": {}, "events": 0, "virtual_ms": 0, "states": [],
                                "wall": 0})
    # merge in seed order so that the first reported violation does not depend on worker timing
    order = {s: i for i, s in enumerate(seeds)}
    results.sort(key=lambda r: order.get(r["seed"], 10 ** 9))
    return results, known
