"""Monitor base: counters, evidence bookkeeping, known-finding suppression, helpers."""
import hashlib
import json
from collections import Counter

import core
import gen
import refmap
import tokens as tk
from boot import pm, pt
from core import Violation

CORE_SCHEMAS = {"basic", "list", "title", "headbody", "iso", "table", "strict"}


def short(obj, n=400):
    s = obj if isinstance(obj, str) else json.dumps(obj, ensure_ascii=True, default=repr, sort_keys=True)
    return s if len(s) <= n else s[:n] + "..."


class MonBase:
    def __init__(self, on, known=None, opts=None):
        self.on = set(on)
        self.known = known or []
        self.opts = opts or {}
        self.sim = None
        self.evals = Counter()
        self.distinct = {}
        self.samples = {}
        self.probes = Counter()
        self.known_hits = Counter()
        self._dg = {}
        self.invalid_docs = {}

    # ---------------------------------------------------------------- bookkeeping
    def count(self, prop, key=None, sample=None, nontrivial=True):
        self.evals[prop] += 1
        if key is not None and nontrivial:
            s = self.distinct.setdefault(prop, set())
            if len(s) < 200000:
                s.add(key)
        if sample is not None:
            lst = self.samples.setdefault(prop, [])
            if len(lst) < 3:
                lst.append(sample)

    def dg(self, doc):
        e = self._dg.get(id(doc))
        if e is not None and e[0] is doc:
            return e[1]
        d = tk.own_digest(doc)
        if len(self._dg) > 4000:
            self._dg.clear()
        self._dg[id(doc)] = (doc, d)
        return d

    def step_key(self, step):
        try:
            return hashlib.sha1(tk.canon(step.to_json()).encode()).hexdigest()[:12]
        except Exception:  # noqa: BLE001
            return repr(type(step))

    # ---------------------------------------------------------------- violations
    def signature(self, prop, check, detail):
        return {"property": prop, "check": check, "shape": detail.get("shape", "")}

    def violation(self, prop, check, detail):
        if prop not in self.on:
            return False
        detail = dict(detail)
        detail.setdefault("site", self.sim.ctx_site if self.sim else None)
        for k in self.known:
            if k.get("status") != "known":
                continue
            if k["property"] == prop and k["check"] == check and (
                    not k.get("shape") or k["shape"] == detail.get("shape", "")):
                self.known_hits[k["id"]] += 1
                return False
        raise Violation(prop, check, detail)

    def violation_if(self, prop, check, detail):
        return self.violation(prop, check, detail)

    def guard(self, prop, fn, *args, **kw):
        """Run one oracle.  An exception raised *by library code* that an oracle calls (get_map,
        invert, map, merge, to_json ...) is a verdict against the property whose oracle it is; an
        exception raised by harness code stays a harness error."""
        import boot

        try:
            return fn(*args, **kw)
        except (Violation, core.SimCrash, core.AbortRun, core.BudgetExceeded):
            raise
        except Exception as e:  # noqa: BLE001
            tb = e.__traceback__
            last = None
            while tb is not None:
                last = tb
                tb = tb.tb_next
            fname = last.tb_frame.f_code.co_filename if last is not None else ""
            if prop in self.on and fname.startswith(boot.REPO.rstrip("/") + "/"):
                self.violation(prop, "library_raised_in_oracle", {
                    "shape": "%s:%s" % (type(e).__name__, last.tb_frame.f_code.co_name),
                    "error": repr(e), "where": "%s:%d" % (fname, last.tb_lineno),
                    "oracle": getattr(fn, "__name__", str(fn))})
                return None
            raise

    # ---------------------------------------------------------------- helpers
    def is_core(self):
        return self.sim.cfg["schema"] in CORE_SCHEMAS

    def doc_equal(self, a, b):
        """own comparison: markup-view tokens plus the top node's own markup"""
        if a is b:
            return True
        return self.dg(a) == self.dg(b)

    def rmap_of(self, step):
        """R2 map from the step's own fields (never from the library's StepMap)."""
        if isinstance(step, pt.ReplaceAroundStep):
            ssize = len(tk.tokens(step.slice.content, "structural")) - step.slice.open_start - step.slice.open_end
            return refmap.RMap([
                (step.from_, step.gap_from - step.from_, step.insert),
                (step.gap_to, step.to - step.gap_to, ssize - step.insert),
            ])
        if isinstance(step, pt.ReplaceStep):
            ssize = len(tk.tokens(step.slice.content, "structural")) - step.slice.open_start - step.slice.open_end
            return refmap.RMap([(step.from_, step.to - step.from_, ssize)])
        return refmap.EMPTY

    def rmapping(self, rmaps, flat_mirrors):
        pairs = [(flat_mirrors[i], flat_mirrors[i + 1]) for i in range(0, len(flat_mirrors or []), 2)]
        return refmap.RMapping(list(rmaps), pairs)

    def describe_step(self, step):
        try:
            return step.to_json()
        except Exception as e:  # noqa: BLE001
            return repr(e)

    def apply_quiet(self, step, doc):
        """apply for oracle purposes: observed by C01/C03 (nested), exceptions -> None"""
        self.sim.in_oracle += 1
        try:
            return step.apply(doc)
        except ValueError:
            return None
        finally:
            self.sim.in_oracle -= 1

    # default no-op hooks (overridden by mixins)
    def on_start(self, doc0):
        pass

    def on_finish(self):
        pass

    def after_event(self, ev, out):
        pass

    def retain(self, kind, obj):
        pass

    def on_probe(self, ev):
        return "noprobe"
