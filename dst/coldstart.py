"""C05, restart fault in the literal sense: a freshly started process (an apply-only worker, a
restarted authority) that has imported nothing but `prosemirror.model` and `prosemirror.transform`
must be able to replay a write-ahead log holding every one of the eight published step types, and
must reach the documents the writing process reached.  The simulator's own processes are forked
from one that has already built and registered everything, so this is the one place where "the step
type registry decodes every built-in step type by its published name" meets a cold registry.
"""
import json
import os
import subprocess
import sys
import tempfile

import boot
import tokens as tk
from boot import pm, pt

SPEC = {
    "nodes": {
        "doc": {"content": "block+", "attrs": {"meta": {"default": None}}},
        "paragraph": {"content": "inline*", "group": "block"},
        "blockquote": {"content": "block+", "group": "block"},
        "image": {"inline": True, "group": "inline", "attrs": {"src": {"default": ""}}},
        "text": {"group": "inline"},
    },
    "marks": {"em": {}, "link": {"attrs": {"href": {}}, "inclusive": False}},
}

COLD = r'''
import sys, json
sys.path.insert(0, sys.argv[1])
import prosemirror.model as pm
import prosemirror.transform as pt
wal = json.load(open(sys.argv[2]))
schema = pm.Schema(wal["spec"])
doc = pm.Node.from_json(schema, wal["doc0"])
out = []
for sj in wal["steps"]:
    try:
        st = pt.Step.from_json(schema, sj)
        r = st.apply(doc)
        if r.failed:
            out.append({"failed": r.failed})
            break
        doc = r.doc
        out.append({"doc": doc.to_json(), "again": st.to_json()})
    except Exception as e:
        out.append({"error": repr(e)})
        break
print("COLD" + json.dumps(out))
'''


def build_wal():
    schema = pm.Schema(json.loads(json.dumps(SPEC)))
    p = schema.node("paragraph", None, [schema.text("ab"), schema.node("image", {"src": "i.png"}),
                                         schema.text("c\U0001F600d")])
    doc = schema.node("doc", None, [p, schema.node("paragraph", None, [schema.text("xyz")])])
    tr = pt.Transform(doc)
    tr.insert_text("Q", 2) if hasattr(tr, "insert_text") else tr.replace_with(2, 2, schema.text("Q"))
    r = tr.doc.resolve(1).block_range(tr.doc.resolve(3))
    tr.wrap(r, pt.find_wrapping(r, schema.nodes["blockquote"]))
    tr.add_mark(3, 5, schema.mark("em"))
    tr.remove_mark(4, 5, schema.mark("em"))
    img = [pos for pos in range(tr.doc.content.size) if (tr.doc.node_at(pos) is not None
                                                         and tr.doc.node_at(pos).type.name == "image")][0]
    tr.add_node_mark(img, schema.mark("link", {"href": ""}))
    tr.remove_node_mark(img, schema.mark("link", {"href": ""}))
    tr.set_node_attribute(img, "src", "")
    tr.set_doc_attribute("meta", {"k": [0, None]})
    steps = [json.loads(json.dumps(s.to_json())) for s in tr.steps]
    kinds = sorted({s["stepType"] for s in steps})
    docs = [d.to_json() for d in tr.docs[1:]] + [tr.doc.to_json()]
    return {"spec": SPEC, "doc0": doc.to_json(), "steps": steps, "kinds": kinds, "expected": docs}


def run_cold(wal):
    fd, path = tempfile.mkstemp(prefix="dst_wal_", suffix=".json", dir="/dev/shm" if os.path.isdir("/dev/shm") else None)
    try:
        with os.fdopen(fd, "w") as f:
            json.dump(wal, f)
        env = {k: v for k, v in os.environ.items() if k != "PYTHONPATH"}
        env["PYTHONHASHSEED"] = "0"
        p = subprocess.run([sys.executable, "-B", "-c", COLD, boot.REPO, path], capture_output=True, text=True,
                           timeout=120, env=env)
    finally:
        os.unlink(path)
    line = [l for l in p.stdout.splitlines() if l.startswith("COLD")]
    if not line:
        return None, (p.stderr or p.stdout)[-1500:]
    return json.loads(line[0][4:]), None


def probe(wal=None):
    """returns (violation detail or None, internal error or None, info)"""
    try:
        wal = wal or build_wal()
    except Exception as e:  # noqa: BLE001
        return None, "cold-start probe could not build its log: %r" % (e,), {}
    if len(wal["kinds"]) != 8:
        return None, "cold-start log holds only %r" % (wal["kinds"],), {}
    out, err = run_cold(wal)
    info = {"steps": len(wal["steps"]), "step_types": wal["kinds"]}
    if out is None:
        return {"check": "restart.cold_process_failed", "detail": {"shape": "import", "error": err, "wal": wal}}, None, info
    for i, sj in enumerate(wal["steps"]):
        got = out[i] if i < len(out) else {"error": "not reached"}
        if "doc" not in got:
            return {"check": "restart.cold_decode", "detail": {
                "shape": sj["stepType"], "step": sj, "outcome": got, "wal": wal,
                "note": "a process that imported only prosemirror.model and prosemirror.transform could not "
                        "replay this logged step"}}, None, info
        if tk.canon(got["doc"]) != tk.canon(wal["expected"][i]) or tk.canon(got["again"]) != tk.canon(sj):
            return {"check": "restart.cold_replay_differs", "detail": {
                "shape": sj["stepType"], "step": sj, "got": got, "expected": wal["expected"][i], "wal": wal}}, None, info
    return None, None, info
