"""R1: flat token view of a document, written independently of the library's size/cut/resolve code.

Uses only: Fragment.content (list), node.type.name, node.attrs, node.marks, node.text,
node.type.is_text, node.type.content_match (to decide leaf-ness via the spec, see is_leaf_type).
One token per UTF-16 code unit of text, one per leaf, an open and a close per non-leaf.
A position is a token index.
"""
import hashlib
import json


def utf16_units(s):
    """List of UTF-16 code units (ints) of a Python string, computed without the library."""
    out = []
    for ch in s:
        o = ord(ch)
        if o >= 0x10000:
            o -= 0x10000
            out.append(0xD800 + (o >> 10))
            out.append(0xDC00 + (o & 0x3FF))
        else:
            out.append(o)
    return out


def _leaf(node):
    # a node type is a leaf iff its content expression is empty; read from the spec, not from
    # the compiled matcher
    spec = node.type.spec
    c = spec.get("content", "") if hasattr(spec, "get") else ""
    return not (c or "").strip()


def canon(v):
    return json.dumps(v, sort_keys=True, ensure_ascii=True, default=_default)


def _default(o):
    return repr(o)


def marks_key(marks):
    return tuple((m.type.name, canon(dict(m.attrs))) for m in marks)


def attrs_key(attrs):
    return canon(dict(attrs)) if attrs else "{}"


def tokens(node_or_fragment, view):
    """view: 'structural' | 'full' | 'markup'."""
    out = []
    frag = getattr(node_or_fragment, "content", None)
    if frag is not None and not isinstance(frag, list):
        children = frag.content
    else:
        children = node_or_fragment.content  # a Fragment
    _walk(children, view, out)
    return out


def _walk(children, view, out):
    for ch in children:
        if ch.type.name == "text":
            units = utf16_units(ch.text)
            if view == "structural":
                for u in units:
                    out.append(("t", u))
            else:
                mk = marks_key(ch.marks)
                for u in units:
                    out.append(("t", u, mk))
        elif _leaf(ch):
            if view == "structural":
                out.append(("l", ch.type.name))
            else:
                out.append(("l", ch.type.name, attrs_key(ch.attrs), marks_key(ch.marks)))
        else:
            if view == "structural":
                out.append(("o", ch.type.name))
            else:
                out.append(("o", ch.type.name, attrs_key(ch.attrs), marks_key(ch.marks)))
            _walk(ch.content.content, view, out)
            if view == "markup":
                out.append(("c", ch.type.name, attrs_key(ch.attrs), marks_key(ch.marks)))
            else:
                out.append(("c",))


def size(node):
    return len(tokens(node, "structural"))


def own_digest(node):
    """R4: digest by own walker (markup view incl. doc attrs/marks)."""
    h = hashlib.sha1()
    h.update(node.type.name.encode())
    h.update(attrs_key(node.attrs).encode())
    h.update(repr(marks_key(node.marks)).encode())
    for t in tokens(node, "markup"):
        h.update(repr(t).encode())
    return h.hexdigest()[:16]


def json_digest(obj):
    return hashlib.sha1(canon(obj).encode()).hexdigest()[:16]


def common_prefix(a, b):
    n = min(len(a), len(b))
    i = 0
    while i < n and a[i] == b[i]:
        i += 1
    return i


def common_suffix(a, b):
    n = min(len(a), len(b))
    i = 0
    while i < n and a[len(a) - 1 - i] == b[len(b) - 1 - i]:
        i += 1
    return i
