"""Monitors evaluated at the apply seam and on finished transforms: C01, C03, C04."""
import core
import gen
import tokens as tk
import validity
from boot import pm, pt

OK_EXC = ValueError  # ReplaceError, TransformError, UnicodeDecodeError are subclasses


def same_map(a, b):
    """two step maps describe the same thing (representation-independent: list vs tuple ...)"""
    return list(a.ranges) == list(b.ranges) and bool(a.inverted) == bool(b.inverted)


def triples_of(smap):
    """explicit (start, old, new) triples in pre-image coordinates from a library StepMap's raw
    ranges with their documented meaning (start, oldSize, newSize; `inverted` swaps roles)"""
    r = list(smap.ranges)
    out = []
    diff = 0
    for i in range(0, len(r), 3):
        s, o, n = r[i], r[i + 1], r[i + 2]
        if smap.inverted:
            out.append((s + diff, n, o))
            diff += n - o
        else:
            out.append((s, o, n))
    return out


class ApplyMonitors:
    # ------------------------------------------------------------------ apply seam
    def on_apply(self, step, doc, res, exc):
        sim = self.sim
        nested = sim.in_oracle > 0
        kind = core.step_kind(step)
        base_valid = id(doc) not in self.invalid_docs
        in_dom = gen.step_in_domain(step, doc)
        stale = sim.ctx_site.startswith("byz") or sim.ctx_site in ("client.rebase", "client.receive", "client.undo")
        if "C01" in self.on and in_dom and base_valid:
            self.c01_judge(step, doc, res, exc, kind, stale)
        if exc is not None or res is None or res.failed or res.doc is None:
            return
        if "C01" not in self.on and base_valid:
            # every other property is stated over schema-valid documents
            try:
                res.doc.check()
            except ValueError:
                self.invalid_docs[id(res.doc)] = res.doc
                if not nested and not sim.ctx_site.startswith("byz"):
                    raise core.AbortRun("schema-invalid document produced (C01's business)")
                return
        if "C05" in self.on:
            self.guard("C05", self.c05_twin_check, step, doc, res)
        if not base_valid:
            return
        if "C03" in self.on:
            self.guard("C03", self.c03_judge, step, doc, res.doc, kind)
        if "C08" in self.on and not nested:
            self.guard("C08", self.c08_single_map, step, doc, res.doc)
        if "C04" in self.on and not nested:
            self.guard("C04", self.c04_single, step, doc, res.doc, kind)
        if "C10" in self.on and not nested:
            self.retain("doc", res.doc)
            self.retain("step", step)

    # ------------------------------------------------------------------ C01
    def c01_judge(self, step, doc, res, exc, kind, stale):
        sim = self.sim
        outcome = None
        if exc is not None:
            if isinstance(exc, OK_EXC):
                outcome = "valueerror"
            else:
                outcome = "internal"
        elif res is None:
            outcome = "internal"
        elif res.failed:
            outcome = "failed"
            self.probes["C01.failed:" + " ".join(str(res.failed).split()[:3])] += 1
        elif res.doc is None:
            outcome = "internal"
        else:
            try:
                res.doc.check()
                outcome = "valid"
            except ValueError as e:
                outcome = "invalid"
                err = str(e)
            if outcome == "valid":
                probs = validity.problems(res.doc)
                if probs:
                    outcome = "invalid"
                    err = "own validity walk: " + "; ".join(probs[:3])
        self.probes["C01.outcome:" + outcome] += 1
        self.probes["C01.kind:" + kind] += 1
        if stale:
            self.probes["C01.stale_kind:" + kind] += 1
        key = (self.step_key(step), self.dg(doc))
        self.count("C01", key, nontrivial=stale, sample=None if not stale else {
            "site": sim.ctx_site, "step": self.describe_step(step), "doc": str(doc)[:200],
            "outcome": outcome})
        if outcome == "internal":
            self.violation("C01", "apply.internal_error", {
                "shape": "%s:%s" % (kind, type(exc).__name__ if exc is not None else "no-result"),
                "step": self.describe_step(step), "doc": doc.to_json(), "error": repr(exc)})
        elif outcome == "invalid":
            self.invalid_docs[id(res.doc)] = res.doc
            # C01 is quantified over schema-valid documents: a base document that an earlier
            # application *outside* the quantifier (e.g. a fitter-built slice with an invalid closed
            # node) left invalid, and that came back through JSON as a new object, is no judged case
            base_bad = False
            try:
                doc.check()
                base_bad = bool(validity.problems(doc))
            except ValueError:
                base_bad = True
            if base_bad:
                self.invalid_docs[id(doc)] = doc
                self.probes["C01.base_document_invalid_not_judged"] += 1
                return
            self.violation("C01", "apply.invalid_doc", {
                "shape": kind, "step": self.describe_step(step), "doc": doc.to_json(),
                "result": res.doc.to_json(), "error": err})

    # ------------------------------------------------------------------ C03
    def c03_judge(self, step, old, new, kind):
        view = "full" if kind in ("replace", "replaceAround") else "structural"
        to = tk.tokens(old, view)
        tn = tk.tokens(new, view)
        smap = step.get_map()
        tri = triples_of(smap)
        key = (self.step_key(step), self.dg(old))
        self.count("C03", key, nontrivial=bool(tri), sample={
            "step": self.describe_step(step), "doc": str(old)[:160], "ranges": tri})
        self.probes["C03.kind:" + kind] += 1
        det = {"shape": kind, "step": self.describe_step(step), "doc": old.to_json(), "ranges": tri}
        # well-formed ranges
        prev_end = 0
        for (s, o, n) in tri:
            if s < prev_end or o < 0 or n < 0 or s + o > len(to):
                self.violation("C03", "map.ranges_malformed", det)
                return
            prev_end = s + o
        delta = sum(n - o for (_, o, n) in tri)
        if len(tn) - len(to) != delta:
            self.violation("C03", "map.size_delta", dict(det, old_size=len(to), new_size=len(tn), delta=delta))
            return
        # kept tokens
        shift = 0
        ri = 0
        for i, tok in enumerate(to):
            while ri < len(tri) and tri[ri][0] + tri[ri][1] <= i:
                # range entirely before token i
                shift += tri[ri][2] - tri[ri][1]
                ri += 1
            if ri < len(tri) and tri[ri][0] <= i < tri[ri][0] + tri[ri][1]:
                continue
            j = i + shift
            if j < 0 or j >= len(tn) or tn[j] != tok:
                self.violation("C03", "map.kept_token_moved", dict(
                    det, index=i, expected_at=j, token=repr(tok), found=repr(tn[j]) if 0 <= j < len(tn) else None))
                return
        # positions
        for p in range(len(to) + 1):
            touching = [(s, o, n) for (s, o, n) in tri if s <= p <= s + o]
            if len(touching) > 1:
                continue
            if touching and touching[0][0] < p < touching[0][0] + touching[0][1]:
                continue
            before = sum(n - o for (s, o, n) in tri if s + o < p)
            for assoc in (-1, 1):
                exp = p + before
                if touching:
                    s, o, n = touching[0]
                    if o == 0:
                        exp += n if assoc > 0 else 0
                    elif p == s + o:
                        exp += n - o
                got = smap.map(p, assoc)
                if got != exp:
                    self.violation("C03", "map.position", dict(det, pos=p, assoc=assoc, expected=exp, got=got))
                    return

    # ------------------------------------------------------------------ C04 (single step clauses)
    def c04_single(self, step, old, new, kind):
        sim = self.sim
        # (4) inverse map
        try:
            inv = step.invert(old)
        except (KeyError, AssertionError) as e:
            # DocAttrStep/AttrStep naming an undeclared attribute: outside C04's quantifier
            if kind in ("attr", "docAttr"):
                self.probes["C04.invert_undeclared_attr"] += 1
                return
            self.violation("C04", "invert.raised", {"shape": kind + ":" + type(e).__name__,
                                                    "step": self.describe_step(step), "doc": old.to_json()})
            return
        key = (self.step_key(step), self.dg(old))
        self.count("C04", key, nontrivial=kind in ("replace", "replaceAround"))
        self.probes["C04.single:" + kind] += 1
        m_inv = inv.get_map()
        m_fwd_inv = step.get_map().invert()
        rinv = self.rmap_of(step).inverted()
        nsize = new.content.size
        for p in range(nsize + 1):
            for assoc in (-1, 1):
                a = m_inv.map(p, assoc)
                b = m_fwd_inv.map(p, assoc)
                c = rinv.map(p, assoc)
                if not (a == b == c):
                    self.violation("C04", "invert.map_not_inverse", {
                        "shape": kind, "step": self.describe_step(step), "doc": old.to_json(),
                        "pos": p, "assoc": assoc, "inverted_step_map": a, "map_inverted": b, "reference": c})
                    return
        # exact single-step undo: replace / attr / doc-attr / node-mark steps
        exact = False
        if kind == "replace":
            exact = True
        elif kind == "attr":
            node = old.node_at(step.pos)
            exact = node is not None and step.attr in node.type.attrs
        elif kind == "docAttr":
            exact = step.attr in old.type.attrs
        elif kind in ("addNodeMark", "removeNodeMark"):
            node = old.node_at(step.pos)
            exact = node is not None
            if exact and kind == "addNodeMark":
                newset = step.mark.add_to_set(node.marks)
                displaced = [m for m in node.marks if not m.is_in_set(newset)]
                exact = len(displaced) <= 1
        if not exact:
            return
        sim.in_oracle += 1
        try:
            try:
                r = inv.apply(new)
            except ValueError as e:
                r = None
                err = repr(e)
        finally:
            sim.in_oracle -= 1
        det = {"shape": kind, "step": self.describe_step(step), "doc": old.to_json(),
               "inverse": self.describe_step(inv)}
        if r is None or r.failed or r.doc is None:
            self.violation("C04", "undo.single_failed", dict(det, failed=(r.failed if r else err)))
            return
        if not self.doc_equal(r.doc, old):
            if kind in ("addNodeMark", "removeNodeMark"):
                node = old.node_at(step.pos)
                same_type = [m for m in node.marks if m.type.name == step.mark.type.name]
                got = r.doc.node_at(step.pos)
                if len(same_type) >= 2 and got is not None and sorted(tk.marks_key(got.marks)) == sorted(
                        tk.marks_key(node.marks)):
                    det["shape"] = "same-type-mark-order"
                elif kind == "addNodeMark":
                    newset = step.mark.add_to_set(node.marks)
                    displaced = [m for m in node.marks if not m.is_in_set(newset)]
                    if len(displaced) == 1 and validity.excludes(sim.schema, step.mark.type.name, displaced[0].type.name) \
                            and not validity.excludes(sim.schema, displaced[0].type.name, step.mark.type.name):
                        det["shape"] = "asymmetric-exclusion"
            self.violation("C04", "undo.single_not_exact", dict(det, got=r.doc.to_json()))
            return
        if not r.doc.eq(old):
            self.violation("C04", "undo.single_eq_false", dict(det, got=r.doc.to_json()))

    # ------------------------------------------------------------------ finished transforms
    def on_transform(self, client, tr, refused, ops, exact_undo=True, tenant=False):
        """`tenant`: a transaction of the second tenant (twin schema) - only the properties quantified
        over all schemas are judged (not C04's history clauses, C16, C17)"""
        sim = self.sim
        if "C04" in self.on and not tenant:
            self.guard("C04", self.c04_transform, client, tr, refused, ops, exact_undo)
        if "C03" in self.on:
            for i, st in enumerate(tr.steps):
                m = tr.mapping.maps[i]
                g = st.get_map()
                if not same_map(m, g):
                    self.violation("C03", "transform.map_mismatch", {
                        "shape": core.step_kind(st), "index": i, "step": self.describe_step(st),
                        "recorded": [list(m.ranges), m.inverted], "step_map": [list(g.ranges), g.inverted]})
        if "C08" in self.on:
            self.guard("C08", self.c08_transform, tr)
        if (("C16" in self.on and self.is_core()) or "C10" in self.on) and not (tenant and "C16" in self.on):
            n = len(tr.steps)
            for i in range(n - 1):
                try:
                    m = tr.steps[i].merge(tr.steps[i + 1])
                except Exception as e:  # noqa: BLE001
                    self.on_merge_raised(tr.steps[i], tr.steps[i + 1], e)
                    m = None
                if m is not None:
                    after = tr.docs[i + 2] if i + 2 < len(tr.docs) else tr.doc
                    self.guard("C16", self.on_merge, client, tr.steps[i], tr.steps[i + 1], m, tr.docs[i], after,
                               "history")
        if tr.steps:
            self.guard("C20", self.on_pair, tr.before, tr.doc, "edit")
        if "C10" in self.on:
            for d in tr.docs:
                self.retain("doc", d)
            self.retain("transform", tr)
            self.retain("mapping", tr.mapping)
            for m in tr.mapping.maps[:4]:
                self.retain("stepmap", m)
            for st in tr.steps[:4]:
                self.retain("step", st)
                if hasattr(st, "slice") and st.slice.size:
                    self.retain("slice", st.slice)
                    self.retain("fragment", st.slice.content)
            # mark sets and attrs of a few nodes of the new document (shared with older documents)
            cnt = [0]

            def visit(node, pos, parent, index):
                if cnt[0] < 6 and (node.marks or (node.attrs and not node.is_text)):
                    cnt[0] += 1
                    if node.marks:
                        self.retain("marks", node.marks)
                    if node.attrs and not node.is_text:
                        self.retain("attrs", node.attrs)
                return cnt[0] < 6

            tr.doc.descendants(visit)
        if "C05" in self.on and tr.steps:
            self.guard("C05", self.c05_parts, tr)

    def c04_transform(self, client, tr, refused, ops, exact_undo):
        sim = self.sim
        n = len(tr.steps)
        what = ops[0].get("op") if ops else "?"
        key = (tuple(self.step_key(s) for s in tr.steps), self.dg(tr.before))
        self.count("C04", key, nontrivial=n >= 1, sample={
            "ops": ops if n and len(str(ops)) < 600 else what, "before": str(tr.before)[:160],
            "steps": [self.describe_step(s) for s in tr.steps][:4], "refused": repr(refused) if refused else None})
        self.probes["C04.tr:" + ("refused" if refused is not None else "ok")] += 1
        if refused == "crashed":
            self.probes["C04.tr_crashed_partial:%d" % min(n, 3)] += 1
        det = {"shape": what, "ops": ops, "before": tr.before.to_json(), "refused": repr(refused)}
        # (1) bookkeeping alignment
        if not (len(tr.docs) == n == len(tr.mapping.maps)):
            self.violation("C04", "bookkeeping.lengths", dict(det, docs=len(tr.docs), steps=n,
                                                              maps=len(tr.mapping.maps)))
            return
        if tr.mapping.from_ != 0 or tr.mapping.to != n:
            self.violation("C04", "bookkeeping.mapping_bounds", dict(det, from_=tr.mapping.from_, to=tr.mapping.to))
            return
        if n == 0:
            if tr.before is not tr.doc:
                self.violation("C04", "bookkeeping.before", det)
            return
        if tr.before is not tr.docs[0]:
            self.violation("C04", "bookkeeping.before", det)
            return
        for i, st in enumerate(tr.steps):
            nxt = tr.docs[i + 1] if i + 1 < n else tr.doc
            try:
                r = core.raw_apply(st, tr.docs[i])
            except Exception as e:  # noqa: BLE001
                self.violation("C04", "replay.step_raised", dict(det, index=i, error=repr(e)))
                return
            if r.failed or r.doc is None:
                self.violation("C04", "replay.step_failed", dict(det, index=i, failed=r.failed,
                                                                 step=self.describe_step(st)))
                return
            if not self.doc_equal(r.doc, nxt):
                self.violation("C04", "replay.doc_mismatch", dict(det, index=i, step=self.describe_step(st)))
                return
            g = st.get_map()
            m = tr.mapping.maps[i]
            if not same_map(m, g):
                self.violation("C04", "bookkeeping.map_mismatch", dict(det, index=i))
                return
        # (3a) exact undo of the whole recorded history
        if not exact_undo or not self.is_core():
            return
        # raw primitive mark / replace-around steps have no claimed exact inverse (C04 names replace,
        # attr, doc-attr and node-mark steps only)
        if any(op.get("op") == "raw_step" and op.get("step", {}).get("stepType") in (
                "addMark", "removeMark", "replaceAround") for op in ops):
            return
        d = tr.doc
        sim.in_oracle += 1
        try:
            for i in range(n - 1, -1, -1):
                inv = tr.steps[i].invert(tr.docs[i])
                try:
                    r = inv.apply(d)
                except ValueError as e:
                    self.violation("C04", "undo.history_raised", dict(det, index=i, error=repr(e),
                                                                      steps=[self.describe_step(s) for s in tr.steps]))
                    return
                if r.failed or r.doc is None:
                    self.violation("C04", "undo.history_failed", dict(det, index=i, failed=r.failed,
                                                                      steps=[self.describe_step(s) for s in tr.steps]))
                    return
                d = r.doc
        finally:
            sim.in_oracle -= 1
        self.probes["C04.undo_history:%s" % what] += 1
        if not self.doc_equal(d, tr.before) or not d.eq(tr.before):
            self.violation("C04", "undo.history_not_exact", dict(
                det, steps=[self.describe_step(s) for s in tr.steps], got=d.to_json()))

    def on_invert_raised(self, step, doc, e):
        kind = core.step_kind(step)
        if kind in ("attr", "docAttr") and isinstance(e, (KeyError, AssertionError)):
            return
        self.violation("C04", "invert.raised", {"shape": kind + ":" + type(e).__name__,
                                                "step": self.describe_step(step), "doc": doc.to_json(),
                                                "error": repr(e)})

    # ------------------------------------------------------------------ C04 recovery / rebase hooks
    def on_recover_version(self, who, version, doc):
        sim = self.sim
        if "C04" not in self.on:
            return
        if version < len(sim.r3) and not sim.r3[version].get("unjudged"):
            self.count("C04", ("recover", version, self.dg(doc)))
            self.probes["C04.recovered_versions"] += 1
            if self.dg(doc) != sim.r3[version]["digest"]:
                self.violation("C04", "replay.recovery_mismatch", {
                    "shape": who, "version": version, "expected": sim.r3[version]["doc"].to_json(),
                    "got": doc.to_json()})

    def replay_from_zero(self, ev):
        """a late joiner replays the authority's whole step log (through JSON bytes) on the initial
        document: every intermediate version must be the one the authority had (R3)"""
        import json

        sim = self.sim
        a = sim.auth
        if "C04" not in self.on or not a.up or not a.version:
            return "skip"
        doc = pm.Node.from_json(sim.schema, json.loads(json.dumps(sim.cfg["init_doc"])))
        sim.in_oracle += 1
        try:
            for v in range(a.version):
                sj = json.loads(json.dumps(a.steps[v].to_json(), ensure_ascii=False))
                st = pt.Step.from_json(sim.schema, sj)
                try:
                    res = st.apply(doc)
                except ValueError as e:
                    res = None
                    err = repr(e)
                if res is None or res.failed or res.doc is None:
                    self.violation("C04", "replay.from_zero_failed", {
                        "shape": core.step_kind(st), "version": v, "step": sj,
                        "failed": res.failed if res is not None else err})
                    return "failed"
                doc = res.doc
                self.on_recover_version("latejoin", v + 1, doc)
        finally:
            sim.in_oracle -= 1
        self.probes["C04.replays_from_zero"] += 1
        return "ok:%d" % a.version

    def on_journal_replayed(self, client, index, rec, doc):
        sim = self.sim
        if "C04" not in self.on:
            return
        shadow = sim.journal_shadow.get(client.cid, [])
        if index < len(shadow):
            self.count("C04", ("journal", client.cid, index, self.dg(doc)))
            self.probes["C04.journal_replayed_steps"] += 1
            if not self.doc_equal(doc, shadow[index]):
                self.violation("C04", "replay.journal_mismatch", {
                    "shape": "journal", "client": client.cid, "index": index, "step": rec["step"],
                    "expected": shadow[index].to_json(), "got": doc.to_json()})

    def on_rebase_undo_failed(self, client, reb, res, tainted):
        if "C04" not in self.on or tainted or not self.is_core():
            return
        self.violation("C04", "undo.rebase_inverse_failed", {
            "shape": core.step_kind(reb.step), "step": self.describe_step(reb.step),
            "inverted": self.describe_step(reb.inverted), "failed": res.failed})

    def on_rebase_undone(self, client, base_version, doc, tainted, rest):
        """3(b): after the undo phase the client's document must equal its confirmed document.
        Returns False when the (tainted) chain's inverse was inexact and the client must resync."""
        sim = self.sim
        ref = sim.r3[base_version]
        same = self.dg(doc) == ref["digest"]
        if tainted and not same:
            self.probes["C04.tainted_inexact"] += 1
            return False
        if ref.get("unjudged"):
            return same
        if "C04" in self.on and self.is_core():
            self.count("C04", ("rebase_undo", base_version, client.cid, self.dg(doc)))
            self.probes["C04.rebase_undo_checked"] += 1
            if not same:
                self.violation("C04", "undo.rebase_not_exact", {
                    "shape": "+".join(sorted({core.step_kind(r.step) for r in rest})),
                    "client": client.cid, "version": base_version,
                    "steps": [self.describe_step(r.step) for r in rest],
                    "expected": ref["doc"].to_json(), "got": doc.to_json()})
        if not same:
            self.sim.diag("client_confirmed_doc_differs")
            return False
        return True

    def c04_rebased(self, client, tr, new_unc, conf_after):
        """3(c): undoing the rebased steps must give the new confirmed document"""
        if "C04" not in self.on or not new_unc or not self.is_core():
            return
        if any(r.rebased_mark for r in new_unc):
            self.probes["C04.rebased_chain_tainted"] += 1
            return
        sim = self.sim
        d = tr.doc
        sim.in_oracle += 1
        try:
            for r in reversed(new_unc):
                try:
                    res = r.inverted.apply(d)
                except ValueError:
                    res = None
                if res is None or res.failed or res.doc is None:
                    self.violation("C04", "undo.rebased_failed", {
                        "shape": core.step_kind(r.step), "step": self.describe_step(r.step),
                        "inverted": self.describe_step(r.inverted), "doc": d.to_json()})
                    return
                d = res.doc
        finally:
            sim.in_oracle -= 1
        self.probes["C04.rebased_undo_checked"] += 1
        self.count("C04", ("rebased", self.dg(tr.doc), len(new_unc)))
        if not self.doc_equal(d, conf_after):
            self.violation("C04", "undo.rebased_not_exact", {
                "shape": "+".join(sorted({core.step_kind(r.step) for r in new_unc})),
                "steps": [self.describe_step(r.step) for r in new_unc],
                "expected": conf_after.to_json(), "got": d.to_json()})
