"""C08: step maps and mappings against R2 (differential) and against laws that never run R2."""
import core
import refmap
import tokens as tk
from boot import pt

Mapping, StepMap = pt.Mapping, pt.StepMap
FLAGS = ("deleted", "deleted_before", "deleted_after", "deleted_across")


class MapMonitors:
    # ------------------------------------------------------------------ single maps
    def c08_single_map(self, step, old, new):
        kind = core.step_kind(step)
        sm = step.get_map()
        R = self.rmap_of(step)
        osize = len(tk.tokens(old, "structural"))
        nsize = len(tk.tokens(new, "structural"))
        key = (tuple(R.t), osize)
        self.count("C08", ("single",) + key, nontrivial=bool(R.t), sample={
            "kind": "single", "ranges": R.t, "doc_size": osize} if R.t else None)
        self.probes["C08.single:%d_ranges" % len(R.t)] += 1
        if len(R.t) == 2 and (R.t[0][0] + R.t[0][1] == R.t[1][0]):
            self.probes["C08.single:adjacent_ranges"] += 1
        det = {"shape": "single:%s" % kind, "step": self.describe_step(step), "ref": R.t}
        if not self.check_map(sm, R, osize, dict(det, dir="forward")):
            return
        self.check_map(sm.invert(), R.inverted(), nsize, dict(det, dir="inverted", shape="single-inverted:%s" % kind))

    @staticmethod
    def positions(size, triples=()):
        """every position of a page-sized document; for a very long one (the size knob of the C08
        mix) the positions around every range boundary, around powers of two (the recover encoding
        packs index and offset into one number), both ends and a sparse sweep"""
        if size <= 4000:
            return range(size + 1)
        ps = set(range(0, 41)) | set(range(size - 40, size + 1)) | set(range(0, size + 1, 997))
        for (s, o, n) in triples:
            for x in (s, s + o, s + n):
                ps.update(range(x - 2, x + 3))
            ps.update(s + k for k in (1, o // 2, o - 1) if o > 0)
            for e in range(8, 22):
                for d in (-1, 0, 1):
                    ps.add(s + (1 << e) + d)
        for e in range(8, 22):
            for d in (-1, 0, 1):
                ps.add((1 << e) + d)
        return sorted(p for p in ps if 0 <= p <= size)

    def check_map(self, sm, R, size, det):
        v = self.violation
        prev = {-1: None, 1: None}
        for p in self.positions(size, R.t):
            res = {}
            for assoc in (-1, 1):
                try:
                    simple = sm.map(p, assoc)
                    mr = sm.map_result(p, assoc)
                except Exception as e:  # noqa: BLE001
                    v("C08", "map.raised", dict(det, pos=p, assoc=assoc, error=repr(e)))
                    return False
                exp, flags, k, off, rec = R.detail(p, assoc)
                if simple != exp or mr.pos != exp:
                    v("C08", "map.pos", dict(det, pos=p, assoc=assoc, expected=exp, map=simple, map_result=mr.pos))
                    return False
                res[assoc] = simple
                if prev[assoc] is not None and simple < prev[assoc]:
                    v("C08", "map.not_monotonic", dict(det, pos=p, assoc=assoc))
                    return False
                prev[assoc] = simple
                if k is None or R.t[k][1] > 0:
                    for f in FLAGS:
                        if bool(getattr(mr, f)) != flags[f]:
                            v("C08", "map.flag", dict(det, pos=p, assoc=assoc, flag=f, expected=flags[f],
                                                      got=bool(getattr(mr, f))))
                            return False
                else:
                    if mr.deleted:
                        v("C08", "map.flag", dict(det, pos=p, assoc=assoc, flag="deleted", expected=False, got=True))
                        return False
                if (mr.recover is not None) != rec:
                    v("C08", "map.recover_presence", dict(det, pos=p, assoc=assoc, expected=rec,
                                                          got=mr.recover))
                    return False
                if mr.recover is not None:
                    try:
                        got = sm.recover(mr.recover)
                        t1 = sm.touches(p, mr.recover)
                        far = R.t[k][0] + R.t[k][1] + 1
                        t2 = sm.touches(far, mr.recover) if far <= size else None
                        near = R.t[k][0] - 1
                        t3 = sm.touches(near, mr.recover) if near >= 0 else None
                    except Exception as e:  # noqa: BLE001
                        v("C08", "recover.raised", dict(det, pos=p, assoc=assoc, error=repr(e)))
                        return False
                    if got != R.post_start(k) + off:
                        v("C08", "recover.value", dict(det, pos=p, assoc=assoc, expected=R.post_start(k) + off, got=got))
                        return False
                    self.probes["C08.touches_checked"] += 1
                    if t1 is not True or t2 is True or t3 is True:
                        v("C08", "touches.wrong", dict(det, pos=p, assoc=assoc, inside=t1, after=t2, before=t3))
                        return False
            if res[-1] > res[1]:
                v("C08", "map.sides_order", dict(det, pos=p))
                return False
        # for_each
        got = []
        try:
            sm.for_each(lambda a, b, c, d: got.append((a, b, c, d)))
        except Exception as e:  # noqa: BLE001
            v("C08", "for_each.raised", dict(det, error=repr(e)))
            return False
        exp = R.ranges_old_new()
        if got != exp:
            v("C08", "for_each.ranges", dict(det, expected=exp, got=got))
            return False
        for (a, b, c, d) in got:
            touching_a = [t for t in R.t if t[0] <= a <= t[0] + t[1]]
            touching_b = [t for t in R.t if t[0] <= b <= t[0] + t[1]]
            if len(touching_a) == 1 and len(touching_b) == 1:
                if (sm.map(a, -1), sm.map(b, 1)) != (c, d):
                    v("C08", "for_each.inconsistent_with_map", dict(det, range=[a, b, c, d]))
                    return False
        if not R.t:
            try:
                if sm.touches(0, 0):
                    v("C08", "touches.wrong", dict(det, note="empty map touches"))
                    return False
            except Exception as e:  # noqa: BLE001
                v("C08", "touches.raised", dict(det, error=repr(e), note="empty map"))
                return False
        return True

    # ------------------------------------------------------------------ mappings
    def check_mapping(self, M, RM, size, det, mirrored=None):
        v = self.violation
        if mirrored is None:
            mirrored = bool(RM.mirrors)
        big = [t for r in RM.maps for t in r.t] if size > 4000 else ()
        for p in self.positions(size, big):
            for assoc in (-1, 1):
                try:
                    a = M.map(p, assoc)
                    mr = M.map_result(p, assoc)
                except Exception as e:  # noqa: BLE001
                    v("C08", "mapping.raised", dict(det, pos=p, assoc=assoc, error=repr(e)))
                    return False
                exp, flags = RM.detail(p, assoc)
                if a != exp or mr.pos != exp:
                    v("C08", "mapping.pos", dict(det, pos=p, assoc=assoc, expected=exp, map=a, map_result=mr.pos))
                    return False
                if bool(mr.deleted) != flags["deleted"]:
                    v("C08", "mapping.deleted", dict(det, pos=p, assoc=assoc, expected=flags["deleted"],
                                                     got=bool(mr.deleted)))
                    return False
                if not mirrored:
                    q = p
                    for i in range(M.from_, M.to):
                        q = M.maps[i].map(q, assoc)
                    if q != a:
                        v("C08", "mapping.not_fold", dict(det, pos=p, assoc=assoc, fold=q, got=a))
                        return False
        return True

    def mapping_laws(self, maps, rmaps, size0, sizeN, det):
        try:
            return self.mapping_laws_(maps, rmaps, size0, sizeN, det)
        except core.Violation:
            raise
        except Exception as e:  # noqa: BLE001
            # an exception out of Mapping's list operations on a real history is a verdict, not a
            # harness error
            self.violation("C08", "mapping.operation_raised", dict(det, error=repr(e)))
            return False

    def mapping_laws_(self, maps, rmaps, size0, sizeN, det):
        """list-operation laws and the mirror round trip on a real history of maps"""
        v = self.violation
        n = len(maps)
        if n == 0:
            return True
        self.probes["C08.histories"] += 1
        M = Mapping(list(maps))
        RM = refmap.RMapping(list(rmaps))
        if not self.check_mapping(M, RM, size0, dict(det, law="plain")):
            return False
        # slice / copy
        i = n // 3
        j = max(i, n - n // 4)
        S = M.slice(i, j)
        if not self.check_mapping(S, RM.slice(i, j), size0 + 2, dict(det, law="slice", i=i, j=j)):
            return False
        C = M.copy()
        if C.maps is M.maps or len(C.maps) != n:
            v("C08", "mapping.copy_shares", dict(det, law="copy"))
            return False
        # a copy is an independent value (rebasing-style use: a mapping is copied as a bookmark, then
        # both sides keep growing): mirrored appends to the copy must not show up in the original,
        # nor the other way round
        if n >= 2 and (n + size0) % 2 == 0:
            h = n // 2
            P = Mapping(list(maps))
            RP = refmap.RMapping(list(rmaps))
            for k in range(n - 1, h - 1, -1):
                P.append_map(maps[k].invert(), k)
                RP.append_map(rmaps[k].inverted(), k)
            C2 = P.copy()
            RC2 = RP.copy()
            for k in range(h - 1, -1, -1):
                C2.append_map(maps[k].invert(), k)
                RC2.append_map(rmaps[k].inverted(), k)
            for k in range(h - 1, -1, -1):
                P.append_map(maps[k].invert())
                RP.append_map(rmaps[k].inverted())
            if not self.check_mapping(P, RP, size0, dict(det, law="copy-then-grow(original)")):
                return False
            if not self.check_mapping(C2, RC2, size0, dict(det, law="copy-then-grow(copy)")):
                return False
            self.probes["C08.copy_independence"] += 1
        # append_mapping
        X = Mapping()
        RX = refmap.RMapping()
        X.append_mapping(Mapping(list(maps[:j])))
        RX.append_mapping(refmap.RMapping(list(rmaps[:j])))
        X.append_mapping(Mapping(list(maps[j:])))
        RX.append_mapping(refmap.RMapping(list(rmaps[j:])))
        if len(X.maps) != n:
            v("C08", "mapping.append_mapping_length", dict(det, expected=n, got=len(X.maps)))
            return False
        if not self.check_mapping(X, RX, size0, dict(det, law="append_mapping")):
            return False
        # invert
        I = M.invert()
        if not self.check_mapping(I, RM.invert(), sizeN, dict(det, law="invert")):
            return False
        # mirror round trip, both directions
        F = Mapping(list(maps))
        RF = refmap.RMapping(list(rmaps))
        for k in range(n - 1, -1, -1):
            F.append_map(maps[k].invert(), k)
            RF.append_map(rmaps[k].inverted(), k)
        self.probes["C08.mirror_roundtrips"] += 1
        for p in self.positions(size0, [t for r in rmaps for t in r.t] if size0 > 4000 else ()):
            for assoc in (-1, 1):
                got = F.map(p, assoc)
                if got != p:
                    amb = RF.double_touch(p, assoc)
                    v("C08", "mirror.roundtrip_forward", dict(
                        det, pos=p, assoc=assoc, got=got, n=n,
                        shape="double-touch" if amb else det.get("shape", "")))
                    if not amb:
                        return False
        if not self.check_mapping(F, RF, size0, dict(det, law="roundtrip-differential")):
            return False
        for (a, b) in ((0, 2 * n - 1), (n // 2, n + n // 2), (0, n), (1, 2 * n)):
            if 0 <= a <= b <= 2 * n:
                if not self.check_mapping(F.slice(a, b), RF.slice(a, b), size0 + 2,
                                          dict(det, law="roundtrip-slice", a=a, b=b)):
                    return False
                # a copy of a window is the same window (mirror indices keep their meaning)
                if (n + size0 + a) % 2 == 1 and not self.check_mapping(F.slice(a, b).copy(), RF.slice(a, b), size0 + 2,
                                          dict(det, law="roundtrip-slice-copy", a=a, b=b)):
                    return False
        B = Mapping([m.invert() for m in reversed(maps)])
        RB = refmap.RMapping([r.inverted() for r in reversed(rmaps)])
        for k in range(n):
            B.append_map(maps[k], n - 1 - k)
            RB.append_map(rmaps[k], n - 1 - k)
        for p in self.positions(sizeN, [t for r in rmaps for t in r.inverted().t] if sizeN > 4000 else ()):
            for assoc in (-1, 1):
                got = B.map(p, assoc)
                if got != p:
                    amb = RB.double_touch(p, assoc)
                    v("C08", "mirror.roundtrip_backward", dict(
                        det, pos=p, assoc=assoc, got=got, n=n,
                        shape="double-touch" if amb else det.get("shape", "")))
                    if not amb:
                        return False
        # append_mapping carries internal mirrors; append_mapping_inverted too
        Y = Mapping()
        RY = refmap.RMapping()
        Y.append_mapping(F)
        RY.append_mapping(RF)
        if not self.check_mapping(Y, RY, size0, dict(det, law="append_mapping(mirrored)")):
            return False
        Z = Mapping()
        RZ = refmap.RMapping()
        Z.append_mapping_inverted(F)
        RZ.append_mapping_inverted(RF)
        if not self.check_mapping(Z, RZ, size0, dict(det, law="append_mapping_inverted(mirrored)")):
            return False
        return True

    def on_mapping_used(self, client, M, RM, what, doc):
        if "C08" not in self.on or RM is None:
            return
        bound = 0
        for r in RM.maps[RM.from_:RM.to]:
            bound = max(bound, r.in_size())
        self.count("C08", (what, tuple(tuple(r.t) for r in RM.maps[RM.from_:RM.to]), tuple(RM.mirrors)),
                   nontrivial=RM.to - RM.from_ > 0)
        self.probes["C08.used:" + what] += 1
        if RM.mirrors:
            self.probes["C08.used_with_mirrors:" + what] += 1
        self.check_mapping(M, RM, bound + 2, {"shape": what, "maps": [r.t for r in RM.maps], "mirrors": RM.mirrors,
                                              "from": RM.from_, "to": RM.to})

    def on_maps_used(self, client, maps, rmaps):
        return

    def c08_bigdoc(self, ev):
        """size knob: one transaction on a very long document (a pasted chapter), so that ranges,
        offsets into deleted content and recover values beyond 2**16 occur; judged like any other
        history (single-map laws at the apply seam, mapping laws and mirror round trips here)"""
        if "C08" not in self.on:
            return "off"
        import schemas

        schema = schemas.get("basic")
        n = int(ev["n"])
        doc = schema.node("doc", None, [schema.node("paragraph", None, [schema.text("ab" * (n // 2))]),
                                        schema.node("paragraph", None, [schema.text("tail")])])
        tr = pt.Transform(doc)
        a, b = int(ev["from"]), int(ev["to"])
        tr.delete(max(1, a), min(n, b))
        tr.replace_with(3, 3, schema.text("in"))
        if ev.get("second"):
            tr.delete(5, 5 + int(ev["second"]))
        self.probes["C08.bigdoc_histories"] += 1
        self.guard("C08", self.c08_transform, tr)
        return "ok:%d" % len(tr.steps)

    # ------------------------------------------------------------------ transforms' own mappings
    def c08_transform(self, tr):
        if "C08" not in self.on or not tr.steps:
            return
        rm = [self.rmap_of(s) for s in tr.steps]
        if not any(r.t for r in rm):
            return
        size0 = len(tk.tokens(tr.before, "structural"))
        sizeN = len(tk.tokens(tr.doc, "structural"))
        self.count("C08", ("tr", tuple(tuple(r.t) for r in rm)), sample={
            "kind": "history", "maps": [r.t for r in rm][:6]})
        self.mapping_laws(list(tr.mapping.maps), rm, size0, sizeN,
                          {"shape": "transform", "maps": [r.t for r in rm]})

    # ------------------------------------------------------------------ rebase mappings
    def c08_rebase(self, client, tr, rest, remote, new_unc, judged, pre_doc, conf_after):
        if "C08" not in self.on:
            return
        n = len(rest)
        m = len(remote)
        rmaps = []
        for r in reversed(rest):
            rmaps.append(self.rmap_of(r.inverted))
        for st in remote:
            rmaps.append(self.rmap_of(st))
        mirrors = []
        applied_idx = 0
        names = {}
        k = n + m
        for i, (r, mapped, applied) in enumerate(judged):
            if applied:
                rmaps.append(self.rmap_of(mapped))
                mirrors.append((n - 1 - i, k))
                k += 1
        RM = refmap.RMapping(rmaps, mirrors)
        if len(tr.mapping.maps) != len(rmaps):
            self.violation("C08", "rebase.mapping_length", {"shape": "rebase", "expected": len(rmaps),
                                                            "got": len(tr.mapping.maps)})
            return
        psize = len(tk.tokens(pre_doc, "structural"))
        self.count("C08", ("rebase", tuple(tuple(r.t) for r in rmaps), tuple(mirrors)),
                   nontrivial=bool(mirrors), sample={"kind": "rebase", "local": n, "remote": m,
                                                     "maps": [r.t for r in rmaps][:8], "mirrors": mirrors})
        self.probes["C08.rebase_mappings"] += 1
        if mirrors:
            self.probes["C08.rebase_mappings_with_mirrors"] += 1
        det = {"shape": "rebase", "maps": [r.t for r in rmaps], "mirrors": mirrors}
        if not self.check_mapping(tr.mapping, RM, psize, det):
            return
        # slices of the rebase mapping as the stub uses them
        L = len(rmaps)
        # the library's mirror lookup is linear, so a mirrored mapping costs O(L^2) per position:
        # fewer slices for long chains
        fs = range(0, L + 1, max(1, L // 3)) if L <= 24 else (n, L - 1)
        for f in fs:
            if not self.check_mapping(tr.mapping.slice(f), RM.slice(f), psize + 2, dict(det, law="slice", f=f)):
                return
            ts = sorted({f, (f + L) // 2, max(f, L - 1)}) if L <= 24 else [max(f, L - 1)]
            for t in ts:
                if not self.check_mapping(tr.mapping.slice(f, t), RM.slice(f, t), psize + 2,
                                          dict(det, law="slice", f=f, t=t)):
                    return
        # token-neighbour law (never runs the mapping code it judges)
        if all(a for (_, _, a) in judged):
            self.token_neighbour(client, tr, rest, remote, judged, pre_doc, det, RM)
        else:
            self.probes["C08.rebase_partial_chain"] += 1

    @staticmethod
    def carry(ids, R, namer):
        out = []
        idx = 0
        for k, (s, o, n) in enumerate(R.t):
            out.extend(ids[idx:s])
            out.extend(namer(k, off) for off in range(n))
            idx = s + o
        out.extend(ids[idx:])
        return out

    def token_neighbour(self, client, tr, rest, remote, judged, pre_doc, det, RM):
        base = rest[0].doc_before
        ids = [("d", i) for i in range(len(tk.tokens(base, "structural")))]
        P = ids
        for i, r in enumerate(rest):
            P = self.carry(P, self.rmap_of(r.step), lambda k, off, i=i: ("l", i, k, off))
        if len(P) != len(tk.tokens(pre_doc, "structural")):
            self.probes["C08.neighbour_skipped_size"] += 1
            return
        Q = ids
        for j, st in enumerate(remote):
            Q = self.carry(Q, self.rmap_of(st), lambda k, off, j=j: ("r", j, k, off))
        for i, (r, mapped, applied) in enumerate(judged):
            Ra, Rb = self.rmap_of(r.step), self.rmap_of(mapped)
            if [t[2] for t in Ra.t] != [t[2] for t in Rb.t]:
                self.probes["C08.neighbour_skipped_shape"] += 1
                return
            Q = self.carry(Q, Rb, lambda k, off, i=i: ("l", i, k, off))
        if len(Q) != len(tk.tokens(tr.doc, "structural")):
            self.probes["C08.neighbour_skipped_size"] += 1
            return
        where = {t: i for i, t in enumerate(Q)}
        self.probes["C08.neighbour_rebases"] += 1
        M = tr.mapping
        for p in range(len(P) + 1):
            x = P[p - 1] if p > 0 else None
            y = P[p] if p < len(P) else None
            ix = where.get(x) if x is not None else -1
            iy = where.get(y) if y is not None else len(Q)
            if ix is None or iy is None:
                continue
            if ix >= iy:
                # the rebase itself re-ordered the two tokens (a local replacement whose start maps
                # to the far side of a concurrent change lands after content it used to precede):
                # "between x and y" is then meaningless
                self.probes["C08.neighbour_pairs_reordered"] += 1
                continue
            for assoc in (-1, 1):
                q = M.map(p, assoc)
                self.probes["C08.neighbour_positions"] += 1
                if not (ix + 1 <= q <= iy):
                    amb = RM.double_touch(p, assoc)
                    self.violation("C08", "rebase.neighbour_law", dict(
                        det, pos=p, assoc=assoc, got=q, must_be_between=[ix + 1, iy],
                        left=repr(x), right=repr(y), shape="double-touch" if amb else "rebase"))
                    if not amb:
                        return

    # ------------------------------------------------------------------ authority translation service
    def on_translate(self, auth, v1, v2, mid, mode):
        if "C08" not in self.on:
            return
        sim = self.sim
        lo, hi = min(v1, v2), max(v1, v2)
        if lo == hi:
            return
        lo = max(lo, hi - 24)  # bound the cost (mirror lookups are quadratic in the chain length)
        if mid is not None:
            mid = max(lo, min(hi, mid))
        maps = auth.maps[lo:hi]
        rm = [self.rmap_of(s) for s in auth.steps[lo:hi]]
        if not any(r.t for r in rm):
            return
        s0 = len(tk.tokens(sim.r3[lo]["doc"], "structural"))
        s1 = len(tk.tokens(sim.r3[hi]["doc"], "structural"))
        v1, v2 = (lo, hi) if v1 <= v2 else (hi, lo)
        det = {"shape": "translate:" + mode, "maps": [r.t for r in rm], "v1": v1, "v2": v2}
        self.count("C08", ("translate", mode, tuple(tuple(r.t) for r in rm)))
        self.probes["C08.translate:" + mode] += 1
        try:
            self.translate_(auth, mode, lo, hi, mid, maps, rm, s0, s1, det, v1, v2)
        except core.Violation:
            raise
        except Exception as e:  # noqa: BLE001
            self.violation("C08", "mapping.operation_raised", dict(det, error=repr(e)))

    def translate_(self, auth, mode, lo, hi, mid, maps, rm, s0, s1, det, v1, v2):
        if mode == "plain":
            base = max(0, lo - 8)
            full = Mapping(list(auth.maps[base:hi]))
            rfull = refmap.RMapping([self.rmap_of(s) for s in auth.steps[base:hi]])
            self.check_mapping(full.slice(lo - base, hi - base), rfull.slice(lo - base, hi - base), s0, det)
        elif mode == "split":
            mid = max(lo, min(hi, mid if mid is not None else lo))
            X = Mapping()
            X.append_mapping(Mapping(list(auth.maps[lo:mid])))
            X.append_mapping(Mapping(list(auth.maps[mid:hi])))
            self.check_mapping(X, refmap.RMapping(rm), s0, det)
        elif mode == "inverted":
            if v1 > v2 or True:
                I = Mapping(list(maps)).invert()
                self.check_mapping(I, refmap.RMapping(rm).invert(), s1, det)
                X = Mapping()
                X.append_mapping_inverted(Mapping(list(maps)))
                self.check_mapping(X, refmap.RMapping(rm).invert(), s1, det)
        else:
            self.mapping_laws(list(maps), rm, s0, s1, det)
