"""Import seam: decide which tree `prosemirror` is imported from.

VERIF_REPO (default /repo) is put first on sys.path so the working tree wins over the
editable install in /venv.  Everything in dst/ imports the library only through this module
(`from boot import pm, pt`), so a mutant copy can be checked by pointing VERIF_REPO at it.
"""
import os
import sys

REPO = os.environ.get("VERIF_REPO", "/repo")
if sys.path[0] != REPO:
    sys.path.insert(0, REPO)
HERE = os.path.dirname(os.path.abspath(__file__))
if HERE not in sys.path:
    sys.path.insert(1, HERE)
VERIF = os.path.dirname(HERE)

# guard variable named in MANIFEST.hooks (no source hooks exist; see DESIGN.md section 2.3)
os.environ.setdefault("FELLOWAPP_PROSEMIRROR_PY_VERIF", "1")

import prosemirror  # noqa: E402
import prosemirror.model as pm  # noqa: E402
import prosemirror.transform as pt  # noqa: E402

_f = os.path.abspath(prosemirror.__file__)
if not _f.startswith(os.path.abspath(REPO) + os.sep):
    raise SystemExit(f"INTERNAL prosemirror imported from {_f}, expected under {REPO}")
