"""Workload: random schema-valid documents, slices, marks, attrs and concrete editor operations.

Everything drawn here comes from the single per-run PRNG handed in by the kernel.  The operations
are emitted in concrete, JSON-able form (positions, JSON of slices/nodes/marks) so a trace can be
replayed without any PRNG; `apply_op` executes one on a Transform deterministically.
"""
from boot import pm, pt

Fragment, Slice, Node, Mark = pm.Fragment, pm.Slice, pm.Node, pm.Mark

ALPHABET = ["a", "b", "c", "d", "e", "f", "g", "x", "y", "z", "a", "b", "c", "o", "p", "r", "s",
            " ", " ", " ", "é", "\U0001F600", "\U0001D4B3", "\n", "-", "q", "1", "2",
            # astral neighbours: same high surrogate as U+1F600 / same low surrogate as U+1F600
            "\U0001F601", "\U0001F200"]

ATTR_MENU = {
    "level": [1, 2, 3, 4, 5, 6],
    "src": ["img.png", "a.gif", "x\U0001F600.png", ""],
    "alt": [None, "alt", ""],
    "title": [None, "t", "Té", ""],
    "order": [1, 2, 5],
    "meta": [None, 1, 2, "m", [1, [2, {"k": None}]], {"a": {"b": [1, 2]}, "c": None}, 0, False,
             {}, {"a": {"b": [1, 2]}}, {"a": {"b": [1, 2], "z": None}, "c": None}, [1, [2, {}]], []],
    "colspan": [1, 2, 3],
    "bg": [None, "red", {"r": 1}, {}, {"r": 1, "g": None}, {"r": {"x": 1}}, {"r": {}}],
    "href": ["foo", "bar", "http://x/\U0001F600", ""],
    "id": [1, 2, 10, 20, 0],
}


def rand_text(rng, lo=1, hi=6):
    n = rng.randint(lo, hi)
    return "".join(rng.choice(ALPHABET) for _ in range(n))


def attr_value(rng, name, attr):
    menu = ATTR_MENU.get(name)
    if menu is None:
        if attr.has_default:
            menu = [attr.default, 1, "v", None]
        else:
            menu = ["r1", "r2", 7]
    return rng.choice(menu)


def rand_attrs(rng, typ, p_default=0.5):
    """attrs dict or None (None = all defaults, shares NodeType.default_attrs)"""
    if not typ.attrs:
        return None
    required = any(a.is_required for a in typ.attrs.values())
    if not required and rng.random() < p_default:
        return None
    out = {}
    for name, a in typ.attrs.items():
        if a.is_required or rng.random() < 0.7:
            out[name] = attr_value(rng, name, a)
    return out


def rand_mark(rng, schema, allowed=None):
    types = [t for t in schema.marks.values() if allowed is None or allowed(t)]
    if not types:
        return None
    t = rng.choice(types)
    return t.create(rand_attrs(rng, t))


def rand_marks(rng, schema, parent_type, p_none=0.55):
    if rng.random() < p_none:
        return None
    marks = Mark.none
    for _ in range(rng.randint(1, 3)):
        m = rand_mark(rng, schema, parent_type.allows_mark_type)
        if m is not None:
            marks = m.add_to_set(marks)
    return list(marks) or None


def gen_node(rng, typ, depth, maxdepth, parent_type=None):
    schema = typ.schema
    marks = None
    if parent_type is not None and not typ.is_text and rng.random() < (0.3 if typ.is_inline else 0.12):
        marks = rand_marks(rng, schema, parent_type, p_none=0.0)
    if typ.is_leaf:
        return typ.create(rand_attrs(rng, typ), None, marks)
    if depth >= maxdepth:
        filled = typ.create_and_fill(rand_attrs(rng, typ), None, marks)
        if filled is not None:
            return filled
    content = gen_content(rng, typ, depth, maxdepth)
    return typ.create(rand_attrs(rng, typ), content, marks)


def gen_content(rng, typ, depth, maxdepth, maxkids=4):
    schema = typ.schema
    match = typ.content_match
    kids = []
    steps = 0
    while True:
        steps += 1
        n_edges = match.edge_count
        if n_edges == 0:
            break
        if match.valid_end and (len(kids) >= maxkids or rng.random() < (0.3 if kids else 0.12)):
            break
        if len(kids) >= maxkids + 2 or steps > 12:
            fill = match.fill_before(Fragment.empty, True)
            if fill is not None:
                kids.extend(fill.content)
                break
        edges = [match.edge(i) for i in range(n_edges)]
        # bias: text in inline content, shallow types when deep
        weights = []
        for e in edges:
            w = 1.0
            if e.type.is_text:
                w = 3.0
            elif e.type.is_textblock:
                w = 2.5
            elif not e.type.is_leaf and depth + 1 >= maxdepth:
                w = 0.3
            if e.type.is_inline and e.type.is_leaf and any(a.is_required for a in e.type.attrs.values()):
                w = 0.7
            weights.append(w)
        e = rng.choices(edges, weights)[0]
        if e.type.is_text:
            kids.append(schema.text(rand_text(rng), rand_marks(rng, schema, typ)))
        else:
            kids.append(gen_node(rng, e.type, depth + 1, maxdepth, typ))
        match = e.next
    return Fragment.from_(kids) if kids else Fragment.empty


def rand_doc(rng, schema, maxdepth=3, tries=20):
    top = schema.top_node_type
    for _ in range(tries):
        try:
            attrs = rand_attrs(rng, top, p_default=0.7)
            doc = top.create(attrs, gen_content(rng, top, 0, maxdepth, maxkids=rng.randint(1, 5)))
            doc.check()
        except ValueError:
            continue
        if doc.content.size <= 160:
            return doc
    doc = top.create_and_fill()
    doc.check()
    return doc


# --------------------------------------------------------------------------- helpers

def mark_to_json(m):
    return m.to_json()


def marks_json(marks):
    return [m.to_json() for m in marks]


def marks_from_json(schema, js):
    if js is None:
        return None
    return [schema.mark_from_json(j) for j in js]


def rand_pos(rng, doc):
    return rng.randint(0, doc.content.size)


def rand_range(rng, doc, maxlen=None):
    size = doc.content.size
    a = rng.randint(0, size)
    if maxlen is not None:
        b = min(size, a + rng.randint(0, maxlen))
    else:
        b = rng.randint(0, size)
    return (a, b) if a <= b else (b, a)


def text_positions(doc):
    """positions inside inline-content parents (where a cursor can type)"""
    out = []

    def walk(node, start):
        if node.type.inline_content:
            out.extend(range(start, start + node.content.size + 1))
            return
        p = start
        for ch in node.content.content:
            if not ch.is_leaf:
                walk(ch, p + 1)
            p += ch.node_size

    walk(doc, 0)
    return out


def node_positions(doc, pred=None):
    out = []

    def f(node, pos, parent, index):
        if pred is None or pred(node):
            out.append(pos)
        return None

    doc.descendants(f)
    return out


def rand_slice_from(rng, doc):
    a, b = rand_range(rng, doc)
    return doc.slice(a, b)


# --------------------------------------------------------------------------- op generation

OP_KINDS = [
    "type", "type_run", "backspace", "delete", "delete_range", "paste", "paste_range",
    "insert_node", "split", "join", "lift", "wrap", "set_block_type", "set_node_markup",
    "add_mark", "remove_mark", "add_node_mark", "remove_node_mark", "set_node_attribute",
    "set_doc_attribute", "raw_step", "replace_with_self", "mark_run", "seam_pair", "mark_sweep",
    "clear_incompatible", "mark_any", "node_mark_stack",
]

DEFAULT_MIX = {
    "type": 10, "type_run": 4, "backspace": 5, "delete": 4, "delete_range": 3, "paste": 5,
    "paste_range": 4, "insert_node": 4, "split": 4, "join": 3, "lift": 3, "wrap": 3,
    "set_block_type": 4, "set_node_markup": 2, "add_mark": 5, "remove_mark": 3,
    "add_node_mark": 2, "remove_node_mark": 1, "set_node_attribute": 3, "set_doc_attribute": 2,
    "raw_step": 3, "replace_with_self": 1, "mark_run": 1, "mark_sweep": 1, "clear_incompatible": 1, "mark_any": 1, "node_mark_stack": 1,
}


def gen_op(rng, kind, doc, sel, pool):
    """gen_op_ guarded: a position that splits a surrogate pair makes the library raise a
    ValueError-family error while we *build* the op; then there is simply no op."""
    try:
        return gen_op_(rng, kind, doc, sel, pool)
    except ValueError:
        return None


def gen_op_(rng, kind, doc, sel, pool):
    """Return a concrete op dict for `kind` against `doc` (cursor/selection `sel` = (from, to)),
    or None when the kind has no sensible instance here.  `pool` = other live documents of the
    same schema (paste sources)."""
    schema = doc.type.schema
    size = doc.content.size
    sf, st = sel
    sf = min(sf, size)
    st = min(max(st, sf), size)
    near = rng.random() < 0.7  # act at the selection (keeps edits of one client together)

    def pick_text_pos():
        if near:
            return sf
        tp = text_positions(doc)
        return rng.choice(tp) if tp else None

    if kind == "type":
        pos = pick_text_pos()
        if pos is None:
            return None
        to = st if (near and rng.random() < 0.25) else pos
        marks = "cursor" if rng.random() < 0.6 else marks_json(
            rand_marks(rng, schema, doc.resolve(pos).parent.type, p_none=0.3) or [])
        text = rand_text(rng, 1, 3)
        if rng.random() < 0.04:
            # now and then a whole sentence at once (long text nodes: block-wise fast paths)
            text = rand_text(rng, 60, 140)
        return {"op": "type", "from": pos, "to": max(pos, to), "text": text, "marks": marks}
    if kind == "type_run":
        pos = pick_text_pos()
        if pos is None:
            return None
        return {"op": "type_run", "pos": pos, "chars": [rand_text(rng, 1, 1) for _ in range(rng.randint(2, 4))]}
    if kind == "backspace":
        pos = pick_text_pos()
        if pos is None or pos == 0:
            return None
        return {"op": "backspace", "pos": pos, "n": rng.randint(1, 3)}
    if kind in ("delete", "delete_range"):
        if near and st > sf:
            a, b = sf, st
        else:
            a, b = rand_range(rng, doc, maxlen=rng.choice([2, 5, 12, None]))
        return {"op": kind, "from": a, "to": b}
    if kind in ("paste", "paste_range"):
        src = rng.choice(pool) if pool and rng.random() < 0.6 else doc
        if rng.random() < 0.2:
            src = rand_doc(rng, schema)
        sl = rand_slice_from(rng, src)
        if near:
            a, b = sf, st
        else:
            a, b = rand_range(rng, doc, maxlen=rng.choice([0, 0, 3, 10]))
        return {"op": kind, "from": a, "to": b, "slice": sl.to_json(), "src": "cut"}
    if kind == "insert_node":
        types = [t for t in schema.nodes.values() if not t.is_text and t is not schema.top_node_type]
        t = rng.choice(types)
        try:
            node = gen_node(rng, t, 2, 3)
        except ValueError:
            return None
        via = rng.choice(["insert", "replace_range_with", "replace_with"])
        if near:
            a, b = sf, (st if rng.random() < 0.3 else sf)
        else:
            a, b = rand_range(rng, doc, maxlen=rng.choice([0, 0, 0, 4]))
        return {"op": "insert_node", "from": a, "to": b, "node": node.to_json(), "via": via}
    if kind == "split":
        cands = [sf] if near else []
        cands += [rand_pos(rng, doc) for _ in range(6)]
        for pos in cands:
            for depth in (rng.choice([1, 1, 2, 3]), 1):
                try:
                    ok = pt.can_split(doc, pos, depth)
                except Exception:
                    ok = False
                if ok:
                    op = {"op": "split", "pos": pos, "depth": depth}
                    if rng.random() < 0.25:
                        tb = [t for t in schema.nodes.values() if t.is_textblock and not t.has_required_attrs()]
                        if tb:
                            t = rng.choice(tb)
                            op["type_after"] = {"type": t.name, "attrs": rand_attrs(rng, t)}
                    return op
        return None
    if kind == "join":
        if rng.random() < 0.3:
            # a join whose second block is empty, followed by the join with the next sibling: two
            # consecutive structural steps at one and the same position
            emp = []

            def f(node, pos, parent, index):
                if not node.is_leaf and not node.is_text and node.content.size == 0 and index > 0:
                    emp.append(pos)

            doc.descendants(f)
            emp = [p for p in emp if pt.can_join(doc, p)]
            if emp:
                return {"op": "join", "pos": rng.choice(emp), "depth": 1, "then": "join_next"}
            # no empty block around: make one first by splitting at the very end of the first block
            tb = []

            def g(node, pos, parent, index):
                if node.is_textblock and index + 1 < parent.child_count:
                    tb.append(pos + node.node_size)

            doc.descendants(g)
            tb = [p for p in tb if pt.can_join(doc, p) and pt.can_split(doc, p - 1)]
            if tb:
                return {"op": "join", "pos": rng.choice(tb), "depth": 1, "then": "join_next", "pre": "split_end"}
        cands = ([sf] if near else []) + [rand_pos(rng, doc) for _ in range(6)]
        for pos in cands:
            try:
                jp = pt.join_point(doc, pos, rng.choice([-1, 1]))
            except Exception:
                jp = None
            if jp is not None:
                op = {"op": "join", "pos": jp, "depth": 1}
                if rng.random() < 0.4:
                    # keep editing right at the seam (structural step followed by an adjacent edit)
                    op["then"] = rng.choice(["backspace", "type", "delete_after", "join_next"])
                return op
        # raw join between adjacent compatible blocks
        return None
    if kind == "lift":
        for _ in range(6):
            a, b = (sf, st) if near and _ == 0 else rand_range(rng, doc, maxlen=6)
            try:
                r = doc.resolve(a).block_range(doc.resolve(b))
                tgt = pt.lift_target(r) if r else None
            except Exception:
                tgt = None
            if tgt is not None:
                return {"op": "lift", "from": a, "to": b}
        return None
    if kind == "wrap":
        wrappers = [t for t in schema.nodes.values()
                    if not t.is_leaf and not t.is_textblock and not t.is_inline and t is not schema.top_node_type]
        if not wrappers:
            return None
        for _ in range(6):
            a, b = (sf, st) if near and _ == 0 else rand_range(rng, doc, maxlen=6)
            t = rng.choice(wrappers)
            try:
                r = doc.resolve(a).block_range(doc.resolve(b))
                w = pt.find_wrapping(r, t, None) if r else None
            except Exception:
                w = None
            if w is not None:
                return {"op": "wrap", "from": a, "to": b, "type": t.name, "attrs": rand_attrs(rng, t)}
        return None
    if kind == "set_block_type":
        tb = [t for t in schema.nodes.values() if t.is_textblock]
        if not tb:
            return None
        t = rng.choice(tb)
        if near:
            a, b = sf, st
        else:
            a, b = rand_range(rng, doc, maxlen=rng.choice([0, 3, 15]))
        return {"op": "set_block_type", "from": a, "to": b, "type": t.name, "attrs": rand_attrs(rng, t)}
    if kind == "set_node_markup":
        ps = node_positions(doc, lambda n: not n.is_text)
        if not ps:
            return None
        pos = rng.choice(ps)
        node = doc.node_at(pos)
        if rng.random() < 0.5:
            t = node.type
        else:
            same = [t for t in schema.nodes.values()
                    if not t.is_text and t.is_leaf == node.type.is_leaf and t.is_inline == node.type.is_inline
                    and t is not schema.top_node_type]
            t = rng.choice(same) if same else node.type
        marks = None
        if rng.random() < 0.2:
            par = doc.resolve(pos).parent.type
            mk = rand_marks(rng, schema, par, p_none=0.0)
            marks = marks_json(mk) if mk else None
        return {"op": "set_node_markup", "pos": pos, "type": t.name, "attrs": rand_attrs(rng, t), "marks": marks}
    if kind == "clear_incompatible":
        # the public helper behind set_block_type: strip what another node type would not admit
        ps = node_positions(doc, lambda n: not n.is_text and not n.is_leaf)
        if not ps:
            return None
        pos = rng.choice(ps)
        node = doc.node_at(pos)
        cands = [t for t in schema.nodes.values()
                 if not t.is_text and not t.is_leaf and t.is_inline == node.type.is_inline
                 and t.inline_content == node.type.inline_content]
        t = rng.choice(cands) if cands else node.type
        return {"op": "clear_incompatible", "pos": pos, "type": t.name}
    if kind in ("add_mark", "remove_mark"):
        if near and st > sf:
            a, b = sf, st
        else:
            a, b = rand_range(rng, doc, maxlen=rng.choice([2, 6, 20, None]))
        if kind == "remove_mark" and rng.random() < 0.3:
            which = rng.choice(["type", "all"])
            if which == "all" or not schema.marks:
                return {"op": "remove_mark", "from": a, "to": b, "mark": None, "mtype": None}
            return {"op": "remove_mark", "from": a, "to": b, "mark": None,
                    "mtype": rng.choice(list(schema.marks))}
        m = None
        if kind == "remove_mark" and rng.random() < 0.7:
            present = []

            def f(node, pos, parent, i):
                present.extend(node.marks)

            doc.nodes_between(a, b, f)
            if present:
                m = rng.choice(present)
        if m is None and kind == "add_mark" and rng.random() < 0.4:
            # a mark of a type already present in the range, with other attributes: exercises the
            # exclusion / replacement paths of add_mark
            present = []

            def f2(node, pos, parent, i):
                present.extend(x for x in node.marks if x.type.attrs)

            doc.nodes_between(a, b, f2)
            if present:
                t = rng.choice(present).type
                m = t.create(rand_attrs(rng, t, p_default=0.0))
        if m is None:
            m = rand_mark(rng, schema)
        if m is None:
            return None
        return {"op": kind, "from": a, "to": b, "mark": m.to_json(), "mtype": None}
    if kind in ("add_node_mark", "remove_node_mark"):
        ps = node_positions(doc, lambda n: not n.is_text)
        if not ps:
            return None
        pos = rng.choice(ps)
        node = doc.node_at(pos)
        par = doc.resolve(pos).parent.type
        if kind == "remove_node_mark" and node.marks and rng.random() < 0.8:
            m = rng.choice(node.marks)
            r = rng.random()
            if r < 0.3:
                return {"op": kind, "pos": pos, "mark": None, "mtype": m.type.name}
            if r < 0.55 and m.type.attrs:
                # a mark of a type the node carries, but with other attribute values: the step applies
                # (and removes nothing); its inverse must leave the node alone as well
                for _ in range(4):
                    m2 = m.type.create(rand_attrs(rng, m.type, p_default=0.2))
                    if not m2.eq(m):
                        m = m2
                        break
        else:
            m = rand_mark(rng, schema, par.allows_mark_type if rng.random() < 0.85 else None)
            if kind == "add_node_mark" and rng.random() < 0.5:
                # a node that already carries marks, and a mark type that displaces one of them
                import validity

                cands = []
                for p_ in ps:
                    n_ = doc.node_at(p_)
                    have = [mk.type.name for mk in n_.marks]
                    if len(have) >= 1:
                        for t in schema.marks.values():
                            if any(validity.excludes(schema, t.name, h) for h in have):
                                cands.append((p_, t))
                if cands:
                    pos, t = rng.choice(cands)
                    m = t.create(rand_attrs(rng, t))
        if m is None:
            return None
        return {"op": kind, "pos": pos, "mark": m.to_json(), "mtype": None}
    if kind == "node_mark_stack":
        # several node marks on one node, the last one displacing an earlier one of another type
        # while unrelated marks sit around it in the set
        import validity

        ps = node_positions(doc, lambda n: not n.is_text)
        names = list(schema.marks)
        pairs = [(x, d) for x in names for d in names if x != d and validity.excludes(schema, x, d)]
        if not ps or len(names) < 3:
            return None
        pos = rng.choice(ps)
        par = doc.resolve(pos).parent.type
        allowed = [n for n in names if par.allows_mark_type(schema.marks[n])]
        if len(allowed) < 3:
            return None
        if pairs and rng.random() < 0.7:
            x, d = rng.choice(pairs)
            if x not in allowed or d not in allowed:
                return None
            others = [n for n in allowed if n not in (x, d)]
            ix, idd = names.index(x), names.index(d)
            between = [n for n in others if min(ix, idd) < names.index(n) < max(ix, idd)
                       and not validity.excludes(schema, x, n) and not validity.excludes(schema, n, x)]
            below = [n for n in others if names.index(n) < min(ix, idd)]
            if between and rng.random() < 0.7:
                seq = [rng.choice(between)] + ([rng.choice(below)] if below and rng.random() < 0.7 else []) + [d]
            else:
                seq = rng.sample(others, min(len(others), rng.randint(1, 3))) + [d]
            rng.shuffle(seq)
            seq.append(x)
        else:
            seq = rng.sample(allowed, min(len(allowed), rng.randint(3, 4)))
        marks = [schema.marks[n].create(rand_attrs(rng, schema.marks[n])).to_json() for n in seq]
        return {"op": "node_mark_stack", "pos": pos, "marks": marks}
    if kind == "mark_run":
        # two or three mark operations on touching / overlapping ranges in one transaction: their
        # steps are consecutive and mergeable (AddMarkStep.merge / RemoveMarkStep.merge)
        a, b = rand_range(rng, doc, maxlen=rng.choice([3, 8, 20]))
        m = rand_mark(rng, schema)
        if m is None or b - a < 2:
            return None
        cuts = sorted({a, b} | {rng.randint(a, b) for _ in range(rng.randint(1, 2))})
        ranges = []
        for x, y in zip(cuts, cuts[1:]):
            lo = max(a, x - rng.choice([0, 0, 1]))
            ranges.append([lo, y])
        return {"op": "mark_run", "ranges": ranges, "mark": m.to_json(), "remove": rng.random() < 0.4}
    if kind == "mark_sweep":
        # a raw mark step over a whole textblock that already carries that mark on some of its
        # runs: some runs change, some are carried over as they are, several joins in one pass
        blocks = []

        def fb(node, pos, parent, i):
            if node.is_textblock and node.child_count >= 3:
                blocks.append((pos, node))
            return None

        doc.descendants(fb)
        if not blocks:
            return None
        pos, node = rng.choice(blocks)
        present = [m for ch in node.content.content for m in ch.marks]
        m = rng.choice(present) if present and rng.random() < 0.8 else rand_mark(rng, schema)
        if m is None:
            return None
        a, b = pos + 1, pos + 1 + node.content.size
        if rng.random() < 0.3:
            a = min(b, a + rng.randint(0, 2))
        return {"op": "raw_step", "step": {"stepType": rng.choice(["addMark", "addMark", "removeMark"]),
                                           "mark": m.to_json(), "from": a, "to": b}}
    if kind == "mark_any":
        # a raw add-mark step with *any* mark type of the schema over (part of) a textblock, whether
        # or not that textblock admits the mark: what a peer with another idea of the schema sends
        blocks = []

        def fa(node, pos, parent, i):
            if node.is_textblock and node.content.size:
                blocks.append((pos, node))
            return None

        doc.descendants(fa)
        if not blocks:
            return None
        pos, node = rng.choice(blocks)
        m = rand_mark(rng, schema)
        if m is None:
            return None
        if rng.random() < 0.5:
            # prefer a mark type that interacts (excludes / is excluded by) with a mark some text
            # in a textblock already carries: mark-set canonicalisation under exclusion
            import validity

            cands = []
            for (p_, n_) in blocks:
                have = {mk.type.name for ch in n_.content.content for mk in ch.marks}
                for t in schema.marks.values():
                    if any(h != t.name and (validity.excludes(schema, t.name, h) or validity.excludes(schema, h, t.name))
                           for h in have):
                        cands.append((p_, n_, t))
            if cands:
                pos, node, t = rng.choice(cands)
                m = t.create(rand_attrs(rng, t))
        a, b = pos + 1, pos + 1 + node.content.size
        r = rng.random()
        if r < 0.3:
            a, b = max(0, a - 1), min(size, b + 1)
        elif r < 0.5 and b - a > 1:
            a = rng.randint(a, b - 1)
            b = rng.randint(a + 1, b)
        return {"op": "raw_step", "step": {"stepType": "addMark", "mark": m.to_json(), "from": a, "to": b}}
    if kind == "seam_pair":
        # two consecutive raw replace steps that meet at one position with *open* slices on both
        # sides of the seam (the second ends where the first inserted, or starts where it ended):
        # the shapes ReplaceStep.merge has to refuse or to join correctly
        depth_of = {}
        for q in range(size + 1):
            try:
                depth_of[q] = doc.resolve(q).depth
            except ValueError:
                pass
        deep = [q for q, d in depth_of.items() if d >= 1]
        if len(deep) < 2:
            return None
        for _ in range(8):
            b = rng.choice(deep)
            cands = [q for q in deep if q < b and depth_of[q] == depth_of[b]]
            if not cands:
                continue
            a = rng.choice(cands[-12:])
            try:
                s1 = doc.slice(a, b)
            except ValueError:
                continue
            if not s1.size or s1.open_start != s1.open_end:
                continue
            step1 = {"stepType": "replace", "from": b, "to": b, "slice": s1.to_json()}
            r1 = pt.Step.from_json(schema, step1).apply(doc)
            if r1.failed or r1.doc is None:
                continue
            d1 = r1.doc
            mode = rng.choice(["before", "before", "after"])
            if mode == "before":
                xs = [q for q in deep if q < b and depth_of[q] == depth_of[b]]
                if not xs:
                    continue
                x = rng.choice(xs[-10:])
                try:
                    s2 = d1.slice(x, b) if rng.random() < 0.6 else rng.choice(pool or [doc]).slice(x, b)
                except ValueError:
                    continue
                step2 = {"stepType": "replace", "from": x, "to": b}
            else:
                e = b + s1.size
                ys = [q for q in range(e, min(d1.content.size, e + 14) + 1)]
                ys = [q for q in ys if d1.resolve(q).depth == d1.resolve(e).depth]
                if not ys:
                    continue
                y = rng.choice(ys)
                try:
                    s2 = d1.slice(e, y)
                except ValueError:
                    continue
                step2 = {"stepType": "replace", "from": e, "to": y}
            if s2.size:
                step2["slice"] = s2.to_json()
            return {"op": "seam_pair", "steps": [step1, step2]}
        return None
    if kind == "set_node_attribute":
        ps = node_positions(doc, lambda n: not n.is_text and bool(n.type.attrs))
        if not ps:
            return None
        pos = rng.choice(ps)
        node = doc.node_at(pos)
        name = rng.choice(list(node.type.attrs))
        return {"op": kind, "pos": pos, "attr": name, "value": attr_value(rng, name, node.type.attrs[name])}
    if kind == "set_doc_attribute":
        if not doc.type.attrs:
            return None
        name = rng.choice(list(doc.type.attrs))
        return {"op": kind, "attr": name, "value": attr_value(rng, name, doc.type.attrs[name])}
    if kind == "replace_with_self":
        a, b = rand_range(rng, doc, maxlen=rng.choice([4, 12, None]))
        return {"op": "paste", "from": a, "to": b, "slice": doc.slice(a, b).to_json(), "src": "self"}
    if kind == "raw_step":
        st_ = gen_raw_step(rng, doc, sel, pool)
        if st_ is None:
            return None
        return {"op": "raw_step", "step": st_}
    return None


def gen_raw_step(rng, doc, sel, pool):
    """JSON of a primitive step built directly (not through a high-level operation)."""
    schema = doc.type.schema
    k = rng.choice(["replace", "replace", "replaceAround", "addMark", "removeMark", "addNodeMark",
                    "removeNodeMark", "attr", "docAttr"])
    size = doc.content.size
    if k == "replace":
        a, b = rand_range(rng, doc, maxlen=rng.choice([0, 2, 6, None]))
        src = rng.choice(pool) if pool and rng.random() < 0.5 else doc
        sl = rand_slice_from(rng, src) if rng.random() < 0.8 else Slice.empty
        js = {"stepType": "replace", "from": a, "to": b}
        if sl.size:
            js["slice"] = sl.to_json()
        if rng.random() < 0.1:
            js["structure"] = True
        return js
    if k == "replaceAround":
        ps = node_positions(doc, lambda n: not n.is_leaf)
        if not ps:
            return None
        pos = rng.choice(ps)
        node = doc.node_at(pos)
        mode = rng.choice(["retype", "unwrap", "wrap", "fuzzy", "consistent", "consistent"])
        if mode == "consistent":
            # depth-consistent fuzz: an (open) slice from a live document, from/to at depths that
            # fit its open sides, a flat gap inside the range, any insertion point in the slice
            src = rng.choice(pool) if pool and rng.random() < 0.5 else doc
            cands = []
            for _ in range(5):
                c = rand_slice_from(rng, src)
                if c.size:
                    cands.append(c)
            if not cands:
                return None
            # bias towards deep open sides and several top-level children
            sl = rng.choices(cands, [1 + 2 * (c.open_start + c.open_end) + c.content.child_count for c in cands])[0]
            depth_of = {}
            for q in range(size + 1):
                try:
                    depth_of[q] = doc.resolve(q).depth
                except ValueError:
                    pass
            froms = [q for q, d in depth_of.items() if d >= sl.open_start]
            if not froms:
                return None
            frm = rng.choice(froms)
            want = depth_of[frm] - sl.open_start + sl.open_end
            tos = [q for q, d in depth_of.items() if q >= frm and d == want]
            if not tos:
                return None
            tos.sort()
            to = rng.choice(tos[:6]) if rng.random() < 0.7 else rng.choice(tos)
            inner = [q for q in node_positions(doc) if frm <= q and q + doc.node_at(q).node_size <= to]
            if inner and rng.random() < 0.8:
                g1 = rng.choice(inner)
                g2 = g1 + doc.node_at(g1).node_size
            else:
                g1 = g2 = rng.randint(frm, to)
            if rng.random() < 0.3:
                # possibly non-flat gap: the library has to refuse it
                g2 = rng.randint(g1, to)
            return {"stepType": "replaceAround", "from": frm, "to": to, "gapFrom": g1, "gapTo": g2,
                    "insert": rng.randint(0, sl.size), "slice": sl.to_json(),
                    "structure": rng.random() < 0.2}
        if mode == "fuzzy":
            # arbitrary ordered positions, arbitrary (open) slice from a live document, arbitrary
            # insertion point inside it: what an untrusted peer may send
            four = sorted(rng.randint(0, size) for _ in range(4))
            if rng.random() < 0.5:
                four[1] = four[0] + min(four[1] - four[0], rng.randint(0, 2))
                four[2] = max(four[1], four[3] - min(four[3] - four[2], rng.randint(0, 2)))
            src = rng.choice(pool) if pool and rng.random() < 0.5 else doc
            sl = rand_slice_from(rng, src)
            js = {"stepType": "replaceAround", "from": four[0], "to": four[3], "gapFrom": four[1],
                  "gapTo": four[2], "insert": rng.randint(0, max(0, sl.size)),
                  "structure": rng.random() < 0.3}
            if sl.size:
                js["slice"] = sl.to_json()
            return js
        if mode == "retype":
            cands = [t for t in schema.nodes.values() if not t.is_leaf and t.is_inline == node.type.is_inline]
            t = rng.choice(cands)
            try:
                shell = t.create(rand_attrs(rng, t), None, None)
            except ValueError:
                return None
            return {"stepType": "replaceAround", "from": pos, "to": pos + node.node_size,
                    "gapFrom": pos + 1, "gapTo": pos + node.node_size - 1, "insert": 1,
                    "slice": Slice(Fragment.from_(shell), 0, 0).to_json(),
                    "structure": rng.random() < 0.8}
        if mode == "unwrap":
            return {"stepType": "replaceAround", "from": pos, "to": pos + node.node_size,
                    "gapFrom": pos + 1, "gapTo": pos + node.node_size - 1, "insert": 0,
                    "structure": rng.random() < 0.8}
        cands = [t for t in schema.nodes.values() if not t.is_leaf and not t.is_inline and not t.is_textblock]
        if not cands:
            return None
        t = rng.choice(cands)
        try:
            shell = t.create(rand_attrs(rng, t), None, None)
        except ValueError:
            return None
        return {"stepType": "replaceAround", "from": pos, "to": pos + node.node_size,
                "gapFrom": pos, "gapTo": pos + node.node_size, "insert": 1,
                "slice": Slice(Fragment.from_(shell), 0, 0).to_json(), "structure": True}
    if k in ("addMark", "removeMark"):
        a, b = rand_range(rng, doc, maxlen=rng.choice([3, 10, None]))
        m = rand_mark(rng, schema)
        if m is None:
            return None
        return {"stepType": k, "mark": m.to_json(), "from": a, "to": b}
    if k in ("addNodeMark", "removeNodeMark"):
        ps = node_positions(doc, lambda n: not n.is_text)
        if not ps:
            return None
        pos = rng.choice(ps)
        node = doc.node_at(pos)
        if k == "removeNodeMark" and node.marks:
            m = rng.choice(node.marks)
        else:
            par = doc.resolve(pos).parent.type
            m = rand_mark(rng, schema, par.allows_mark_type if rng.random() < 0.85 else None)
        if m is None:
            return None
        return {"stepType": k, "pos": pos, "mark": m.to_json()}
    if k == "attr":
        ps = node_positions(doc, lambda n: not n.is_text and bool(n.type.attrs))
        if not ps:
            return None
        pos = rng.choice(ps)
        node = doc.node_at(pos)
        name = rng.choice(list(node.type.attrs))
        return {"stepType": "attr", "pos": pos, "attr": name,
                "value": attr_value(rng, name, node.type.attrs[name])}
    if k == "docAttr":
        if not doc.type.attrs:
            return None
        name = rng.choice(list(doc.type.attrs))
        return {"stepType": "docAttr", "attr": name, "value": attr_value(rng, name, doc.type.attrs[name])}
    return None


# --------------------------------------------------------------------------- op execution

class Refused(Exception):
    """The command did not apply here (precondition false on this document)."""


# set by the simulator: called with (kind, object) for every value this harness builds and hands to a
# library operation as an argument (C10: "no operation changes a ... slice ... that was passed to it")
on_input = None


def _inp(kind, obj):
    if on_input is not None:
        on_input(kind, obj)
    return obj


def apply_op(tr, op):
    """Execute a concrete op on transform `tr` (deterministic in (tr.doc, op)).  Raises Refused when
    the op's precondition does not hold on this document; library exceptions propagate."""
    doc = tr.doc
    schema = doc.type.schema
    size = doc.content.size
    k = op["op"]

    def inr(*ps):
        for p in ps:
            if not (isinstance(p, int) and 0 <= p <= size):
                raise Refused("position out of range")

    if k == "type":
        inr(op["from"], op["to"])
        if op["from"] > op["to"]:
            raise Refused("unordered")
        if op["marks"] == "cursor":
            marks = doc.resolve(op["from"]).marks()
        else:
            marks = marks_from_json(schema, op["marks"])
        tr.replace_with(op["from"], op["to"], schema.text(op["text"], marks))
    elif k == "type_run":
        pos = op["pos"]
        inr(pos)
        for ch in op["chars"]:
            marks = tr.doc.resolve(pos).marks()
            before = tr.doc.content.size
            tr.replace_with(pos, pos, schema.text(ch, marks))
            pos += tr.doc.content.size - before
            if pos > tr.doc.content.size or pos < 0:
                break
    elif k == "backspace":
        pos = op["pos"]
        inr(pos)
        for _ in range(op["n"]):
            if pos <= 0:
                break
            tr.delete(pos - 1, pos)
            pos -= 1
    elif k == "delete":
        inr(op["from"], op["to"])
        tr.delete(op["from"], op["to"])
    elif k == "delete_range":
        inr(op["from"], op["to"])
        tr.delete_range(op["from"], op["to"])
    elif k == "paste":
        inr(op["from"], op["to"])
        tr.replace(op["from"], op["to"], _inp("slice", Slice.from_json(schema, op["slice"])))
    elif k == "paste_range":
        inr(op["from"], op["to"])
        tr.replace_range(op["from"], op["to"], _inp("slice", Slice.from_json(schema, op["slice"])))
    elif k == "insert_node":
        inr(op["from"], op["to"])
        node = _inp("doc", Node.from_json(schema, op["node"]))
        if op["via"] == "insert":
            tr.insert(op["from"], node)
        elif op["via"] == "replace_with":
            tr.replace_with(op["from"], op["to"], node)
        else:
            tr.replace_range_with(op["from"], op["to"], node)
    elif k == "split":
        inr(op["pos"])
        ta = None
        if op.get("type_after"):
            t = schema.nodes[op["type_after"]["type"]]
            ta = [pt.structure.NodeTypeWithAttrs(t, op["type_after"]["attrs"])]
        if not pt.can_split(doc, op["pos"], op["depth"], ta):
            raise Refused("cannot split")
        tr.split(op["pos"], op["depth"], ta)
    elif k == "join":
        inr(op["pos"])
        if op.get("pre") == "split_end":
            if op["pos"] < 1 or not pt.can_split(doc, op["pos"] - 1):
                raise Refused("cannot split")
            tr.split(op["pos"] - 1)
            doc = tr.doc
            size = doc.content.size
        if op["pos"] - op["depth"] < 0 or op["pos"] + op["depth"] > size or not pt.can_join(doc, op["pos"]):
            raise Refused("cannot join")
        tr.join(op["pos"], op["depth"])
        seam = op["pos"] - op["depth"]
        then = op.get("then")
        if then == "backspace" and seam > 0:
            tr.delete(seam - 1, seam)
        elif then == "delete_after" and seam < tr.doc.content.size:
            tr.delete(seam, seam + 1)
        elif then == "type":
            tr.replace_with(seam, seam, schema.text("j", tr.doc.resolve(seam).marks()))
        elif then == "join_next":
            r = tr.doc.resolve(seam)
            if r.depth > 0:
                p2 = r.after(r.depth)
                if 0 < p2 < tr.doc.content.size and pt.can_join(tr.doc, p2):
                    tr.join(p2, 1)
    elif k == "lift":
        inr(op["from"], op["to"])
        r = doc.resolve(op["from"]).block_range(doc.resolve(op["to"]))
        tgt = pt.lift_target(r) if r else None
        if tgt is None:
            raise Refused("cannot lift")
        tr.lift(r, tgt)
    elif k == "wrap":
        inr(op["from"], op["to"])
        r = doc.resolve(op["from"]).block_range(doc.resolve(op["to"]))
        w = pt.find_wrapping(r, schema.nodes[op["type"]], op["attrs"]) if r else None
        if w is None:
            raise Refused("cannot wrap")
        tr.wrap(r, w)
    elif k == "set_block_type":
        inr(op["from"], op["to"])
        tr.set_block_type(op["from"], op["to"], schema.nodes[op["type"]], op["attrs"])
    elif k == "set_node_markup":
        inr(op["pos"])
        if doc.node_at(op["pos"]) is None:
            raise Refused("no node")
        tr.set_node_markup(op["pos"], schema.nodes[op["type"]], op["attrs"],
                           marks_from_json(schema, op["marks"]))
    elif k == "clear_incompatible":
        inr(op["pos"])
        node = doc.node_at(op["pos"])
        if node is None or node.is_text or node.is_leaf:
            raise Refused("no node")
        tr.clear_incompatible(op["pos"], schema.nodes[op["type"]])
    elif k in ("add_mark", "remove_mark"):
        inr(op["from"], op["to"])
        if op["from"] > op["to"]:
            raise Refused("unordered")
        if op["mark"] is not None:
            m = schema.mark_from_json(op["mark"])
        elif op["mtype"] is not None:
            m = schema.marks[op["mtype"]]
        else:
            m = None
        if k == "add_mark":
            tr.add_mark(op["from"], op["to"], m)
        else:
            tr.remove_mark(op["from"], op["to"], m)
    elif k == "seam_pair":
        for sj in op["steps"]:
            step = pt.Step.from_json(schema, sj)
            if not step_in_domain(step, tr.doc):
                raise Refused("seam step outside document")
            if tr.maybe_step(step).failed:
                break
    elif k == "mark_run":
        m = schema.mark_from_json(op["mark"])
        for (x, y) in op["ranges"]:
            inr(x, y)
            if x > y:
                raise Refused("unordered")
            if op["remove"]:
                tr.remove_mark(x, y, m)
            else:
                tr.add_mark(x, y, m)
    elif k in ("add_node_mark", "remove_node_mark"):
        inr(op["pos"])
        node = doc.node_at(op["pos"])
        if node is None or node.is_text:
            raise Refused("no node")
        m = schema.mark_from_json(op["mark"]) if op["mark"] is not None else schema.marks[op["mtype"]]
        if k == "add_node_mark":
            tr.add_node_mark(op["pos"], m)
        else:
            tr.remove_node_mark(op["pos"], m)
    elif k == "node_mark_stack":
        inr(op["pos"])
        node = doc.node_at(op["pos"])
        if node is None or node.is_text:
            raise Refused("no node")
        for mj in op["marks"]:
            tr.add_node_mark(op["pos"], schema.mark_from_json(mj))
    elif k == "set_node_attribute":
        inr(op["pos"])
        node = doc.node_at(op["pos"])
        if node is None or node.is_text or op["attr"] not in node.type.attrs:
            raise Refused("no such attr here")
        tr.set_node_attribute(op["pos"], op["attr"], op["value"])
    elif k == "set_doc_attribute":
        if op["attr"] not in doc.type.attrs:
            raise Refused("no such doc attr")
        tr.set_doc_attribute(op["attr"], op["value"])
    elif k == "raw_step":
        step = pt.Step.from_json(schema, op["step"])
        if not step_in_domain(step, doc):
            raise Refused("raw step outside document")
        tr.maybe_step(step)
    else:
        raise Refused("unknown op " + k)


def step_positions(step):
    if isinstance(step, pt.ReplaceAroundStep):
        return [step.from_, step.gap_from, step.gap_to, step.to]
    if isinstance(step, (pt.ReplaceStep, pt.AddMarkStep, pt.RemoveMarkStep)):
        return [step.from_, step.to]
    if hasattr(step, "pos"):
        return [step.pos]
    return []


def slice_payload_valid(slice, insert=None):
    """C01's quantifier asks for a schema-valid slice payload: every node of the slice that the
    replace algorithm will copy as-is must itself be valid.  Exempt from the own-content check
    are only the nodes on the open sides (they are joined with document nodes and validated by
    the library) and, for a replace-around, the node that directly receives the gap content."""

    def walk(frag, open_l, open_r, ins):
        pos = 0
        kids = frag.content
        n = len(kids)
        for i, ch in enumerate(kids):
            size = ch.node_size
            left_open = i == 0 and open_l > 0
            right_open = i == n - 1 and open_r > 0
            has_ins = ins is not None and not ch.is_text and not ch.is_leaf and pos < ins < pos + size
            if left_open or right_open or has_ins:
                if ch.is_text or ch.is_leaf:
                    return False
                inner_ins = ins - pos - 1 if has_ins else None
                direct = False
                if has_ins:
                    # does a non-text child of ch strictly contain the insertion point?
                    p2 = 0
                    direct = True
                    for g in ch.content.content:
                        if not g.is_text and not g.is_leaf and p2 < inner_ins < p2 + g.node_size:
                            direct = False
                        p2 += g.node_size
                if not (left_open or right_open or direct):
                    if not ch.type.valid_content(ch.content):
                        return False
                if not walk(ch.content, open_l - 1 if left_open else 0, open_r - 1 if right_open else 0,
                            inner_ins):
                    return False
            else:
                try:
                    ch.check()
                except ValueError:
                    return False
            pos += size
        return True

    return walk(slice.content, slice.open_start, slice.open_end,
                insert + slice.open_start if insert is not None else None)


def step_in_domain(step, doc):
    """C01's quantifier: all positions inside the document and ordered; replace-around insert inside
    the slice; attr steps name an attribute... (the latter is checked where needed)."""
    size = doc.content.size
    ps = step_positions(step)
    if any((not isinstance(p, int)) or isinstance(p, bool) or p < 0 or p > size for p in ps):
        return False
    if any(ps[i] > ps[i + 1] for i in range(len(ps) - 1)):
        return False
    if isinstance(step, pt.ReplaceAroundStep):
        if not (isinstance(step.insert, int) and 0 <= step.insert <= step.slice.size):
            return False
        if not slice_payload_valid(step.slice, step.insert):
            return False
    elif isinstance(step, pt.ReplaceStep):
        if not slice_payload_valid(step.slice):
            return False
    return True
