"""Confirm and file a change written by an independent sub-agent.

  python dst/ingest.py <PROP> <letter> <srcdir> ["needs text"] ["description text"]

Confirms, in scratch copies of /repo's HEAD under /dev/shm (deleted afterwards): the patch applies,
the repository's whole test suite passes with it, the demonstration exits 1 with the change and 0
without it.  Then runs the property's quick check against the changed copy and files everything as
seeded/<PROP><letter>/ (patch.diff, demo.py, notes.md, meta.json).  Nothing is written to /repo.
"""
import json
import os
import shutil
import subprocess
import sys

VERIF = os.path.dirname(os.path.dirname(os.path.abspath(__file__)))
SCRATCH = "/dev/shm/dst_ingest"


def sh(cmd, **kw):
    return subprocess.run(cmd, shell=True, capture_output=True, text=True, **kw)


def copy(name):
    d = os.path.join(SCRATCH, name)
    shutil.rmtree(d, ignore_errors=True)
    os.makedirs(d)
    r = sh("git -C /repo archive HEAD | tar -x -C %s" % d)
    if r.returncode:
        raise SystemExit(r.stderr)
    return d


def main():
    prop, letter, src = sys.argv[1:4]
    needs = sys.argv[4] if len(sys.argv) > 4 else ""
    descr = sys.argv[5] if len(sys.argv) > 5 else ""
    sid = prop + letter
    patch = os.path.join(src, "patch.diff")
    demo = os.path.join(src, "demo.py")
    meta = {"id": sid, "property": prop,
            "source": "independent sub-agent given only the property text and a scratch worktree (round e: two "
                      "different mechanisms per property, asked for changes a randomized collab simulation "
                      "would need luck to hit)",
            "base_commit": sh("git -C /repo rev-parse --short HEAD").stdout.strip()}
    d1 = copy(sid + "_with")
    d0 = copy(sid + "_without")
    try:
        r = sh("cd %s && patch -p1 -s --no-backup-if-mismatch < %s" % (d1, patch))
        if r.returncode:
            print("PATCH FAILED", r.stdout, r.stderr)
            return 1
        t = sh("cd %s && PYTHONPATH=%s /venv/bin/python -m pytest -q -p no:cacheprovider 2>&1 | tail -1" % (d1, d1))
        meta["tests_with_change"] = t.stdout.strip()
        a = sh("cd %s && PYTHONPATH=%s timeout 300 /venv/bin/python %s" % (d1, d1, demo))
        b = sh("cd %s && PYTHONPATH=%s timeout 300 /venv/bin/python %s" % (d0, d0, demo))
        meta["demo_exit_with_change"] = a.returncode
        meta["demo_exit_without_change"] = b.returncode
        meta["demo_output_with_change"] = (a.stdout + a.stderr).strip().splitlines()[-6:]
        meta["what_i_ran"] = ["scratch copy of /repo HEAD + patch -p1",
                              "PYTHONPATH=<copy> /venv/bin/python -m pytest -q -p no:cacheprovider (in the copy)",
                              "demo.py with cwd and PYTHONPATH = changed copy; same with an unchanged copy",
                              "VERIF_REPO=<copy> ./check %s --tier quick" % prop]
        confirmed = ("passed" in meta["tests_with_change"] and "failed" not in meta["tests_with_change"]
                     and a.returncode == 1 and b.returncode == 0)
        meta["confirmed"] = confirmed
        print(json.dumps(meta, indent=1))
        if not confirmed:
            print("NOT CONFIRMED - not filed")
            return 1
        out = os.path.join(d1, "_out")
        r = sh("cd %s && VERIF_REPO=%s VERIF_OUT=%s timeout 900 ./check %s --tier quick" % (VERIF, d1, out, prop))
        lines = [l for l in r.stdout.splitlines() if l.startswith(("violation", "VIOLATION", "INTERNAL", "OK", "runs="))]
        meta["first_check_result"] = {"exit": r.returncode, "output": lines[:6]}
        print("CHECK exit", r.returncode, lines[:6])
        meta["needs"] = needs
        meta["description"] = descr
        dst = os.path.join(VERIF, "seeded", sid)
        os.makedirs(dst, exist_ok=True)
        shutil.copy(patch, os.path.join(dst, "patch.diff"))
        shutil.copy(demo, os.path.join(dst, "demo.py"))
        if os.path.exists(os.path.join(src, "notes.md")):
            shutil.copy(os.path.join(src, "notes.md"), os.path.join(dst, "notes.md"))
        json.dump(meta, open(os.path.join(dst, "meta.json"), "w"), indent=1)
    finally:
        shutil.rmtree(d1, ignore_errors=True)
        shutil.rmtree(d0, ignore_errors=True)
    return 0


if __name__ == "__main__":
    sys.exit(main())
