#!/bin/bash
# usage: dst/trypatch.sh <patch.diff> <PROP> [check args...]   - run a check against a scratch copy of /repo HEAD + patch
set -e
P="$1"; PROP="$2"; shift 2
D=/dev/shm/dst_try_$$
rm -rf $D; mkdir -p $D
git -C /repo archive HEAD | tar -x -C $D
(cd $D && patch -p1 -s --no-backup-if-mismatch < "$P")
cd /verif
set +e
VERIF_REPO=$D VERIF_OUT=$D/_out timeout 1500 ./check $PROP "$@" 2>&1 | grep -E "^(violation|VIOLATION|INTERNAL|OK|runs=)" | head -8
echo "exit=${PIPESTATUS[0]}"
rm -rf $D
