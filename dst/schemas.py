"""Schema configurations ("configurations" quantifier of C04/C16/C17).

Bundled basic, bundled basic+list (test_builder.test_schema), and the hand-written variants the
upstream tests use: title?, heading/body, isolating container, table-like with isolating cells, the
strict structure schema, a marks-on-doc variant and a comment-marks schema.
"""
from boot import pm

from prosemirror.schema.basic import schema as basic_schema
from prosemirror.schema.list import add_list_nodes
from prosemirror.test_builder import test_schema as list_schema

Schema = pm.Schema

_basic_nodes = dict(basic_schema.spec["nodes"])
_basic_marks = dict(basic_schema.spec["marks"])
_list_nodes = dict(list_schema.spec["nodes"])


def _mk(nodes, marks=None):
    spec = {"nodes": nodes}
    if marks is not None:
        spec["marks"] = marks
    return Schema(spec)


def _title():
    nodes = dict(_list_nodes)
    nodes["title"] = {"content": "text*"}
    nodes["doc"] = {"content": "title? block*", "attrs": {"meta": {"default": None}}}
    return _mk(nodes, _basic_marks)


def _headbody():
    nodes = dict(_basic_nodes)
    nodes["doc"] = {"content": "heading body"}
    nodes["body"] = {"content": "block+"}
    return _mk(nodes, _basic_marks)


def _iso():
    nodes = dict(_list_nodes)
    nodes["iso"] = {"group": "block", "content": "block+", "isolating": True}
    return _mk(nodes, _basic_marks)


def _table():
    nodes = dict(_basic_nodes)
    nodes["doc"] = {"content": "block+", "attrs": {"meta": {"default": None}}}
    nodes["table"] = {"content": "row+", "group": "block", "isolating": True}
    nodes["row"] = {"content": "cell+"}
    nodes["cell"] = {
        "content": "block+",
        "isolating": True,
        "attrs": {"colspan": {"default": 1}, "bg": {"default": None}},
    }
    return _mk(nodes, _basic_marks)


def _strict():
    return Schema({
        "nodes": {
            "doc": {"content": "head? block* sect* closing?"},
            "para": {"content": "text*", "group": "block"},
            "head": {"content": "text*", "marks": ""},
            "figure": {"content": "caption figureimage", "group": "block"},
            "quote": {"content": "block+", "group": "block"},
            "figureimage": {},
            "caption": {"content": "text*", "marks": ""},
            "sect": {"content": "head block* sect*"},
            "closing": {"content": "text*"},
            "text": {"group": "inline"},
            "fixed": {"content": "head para closing", "group": "block"},
        },
        "marks": {"em": {}},
    })


def _docmarks():
    nodes = dict(_list_nodes)
    nodes["doc"] = {"content": "block+", "marks": "_", "attrs": {"meta": {"default": None}}}
    return _mk(nodes, _basic_marks)


def _comment():
    nodes = dict(_basic_nodes)
    marks = dict(_basic_marks)
    marks["comment"] = {"excludes": "", "attrs": {"id": {}}}
    marks["big"] = {"excludes": "small1 small2"}
    marks["small1"] = {}
    marks["small2"] = {}
    # two mutually exclusive types with a neutral one ranked between them
    marks["sub"] = {"excludes": "sub sup"}
    marks["mid"] = {}
    marks["sup"] = {"excludes": "sup sub"}
    nodes["doc"] = {"content": "block+", "marks": "comment"}
    return _mk(nodes, marks)


def _footnote():
    # an inline node that has content *and* is an atom (is_atom and is_leaf disagree)
    nodes = dict(_basic_nodes)
    nodes["footnote"] = {"group": "inline", "inline": True, "content": "text*", "atom": True}
    return _mk(nodes, _basic_marks)


_BUILDERS = {
    "basic": lambda: basic_schema,
    "list": lambda: list_schema,
    "title": _title,
    "headbody": _headbody,
    "iso": _iso,
    "table": _table,
    "strict": _strict,
    "docmarks": _docmarks,
    "comment": _comment,
    "footnote": _footnote,
}
NAMES = list(_BUILDERS)
_cache = {}


_pristine = {}


def _remember(name, s):
    import copy

    for t in s.nodes.values():
        if isinstance(t.default_attrs, dict):
            _pristine[(name, "n", t.name)] = (t.default_attrs, copy.deepcopy(t.default_attrs))
    for t in s.marks.values():
        if t.instance is not None and isinstance(t.instance.attrs, dict):
            _pristine[(name, "m", t.name)] = (t.instance.attrs, copy.deepcopy(t.instance.attrs))


def restore_defaults():
    """Schema objects are process-wide (basic and list are the library's own module-level
    singletons): a run that corrupts a type's shared default attrs must not leak into the next
    run of the same worker process.  Returns the names of what had to be restored."""
    import copy

    dirty = []
    for key, (live, good) in _pristine.items():
        if live != good:
            dirty.append("%s:%s" % (key[0], key[2]))
            live.clear()
            live.update(copy.deepcopy(good))
    return dirty


def get(name):
    s = _cache.get(name)
    if s is None:
        s = _cache[name] = _BUILDERS[name]()
        _remember(name, s)
    return s


def fresh(name):
    """A freshly built schema object (used to vary the shared per-schema caches)."""
    if name in ("basic", "list"):
        return get(name)
    return _BUILDERS[name]()


def twin_of(schema):
    """A second tenant's schema for the same process: same node and mark *names* as `schema`, but
    marks declared in the opposite order (other ranks), every other unrestricted textblock type
    admitting only the first half of the mark types, and integer attribute defaults shifted by one.
    Any library state keyed by names instead of by schema objects gives wrong answers for one of
    the two tenants."""
    spec = schema.spec
    nodes = {k: dict(v) for k, v in dict(spec["nodes"]).items()}
    marks = {k: dict(v) for k, v in dict(spec.get("marks") or {}).items()}
    mnames = list(marks)
    keep = mnames[: max(1, len(mnames) // 2)]
    i = 0
    for name, n in nodes.items():
        content = n.get("content") or ""
        if mnames and ("inline" in content or "text" in content) and "marks" not in n:
            if i % 2 == 0:
                n["marks"] = " ".join(keep)
            i += 1
        if n.get("attrs"):
            attrs = {}
            for a, d in n["attrs"].items():
                d = dict(d)
                if "default" in d and isinstance(d["default"], int) and not isinstance(d["default"], bool):
                    d["default"] = d["default"] + 1
                attrs[a] = d
            n["attrs"] = attrs
    tmarks = {k: marks[k] for k in reversed(mnames)}
    return Schema({"nodes": nodes, "marks": tmarks})


_twins = {}


def twin(name):
    """cached twin of the cached schema `name` (used only to draw the tenant's initial document)"""
    t = _twins.get(name)
    if t is None:
        t = _twins[name] = twin_of(get(name))
    return t
