"""print a replay file compactly:  python showreplay.py FILE"""
import json, sys
d = json.load(open(sys.argv[1]))
print(d["property"], "seed", d["seed"], "events", d["original_events"], "->", d["minimised_events"], "schema", d["cfg"]["schema"], "clients", d["cfg"]["n_clients"])
print("knobs", d["cfg"]["knobs"])
print("init", json.dumps(d["cfg"]["init_doc"])[:int(sys.argv[2]) if len(sys.argv) > 2 else 500])
for e in d["trace"]:
    print("  ", json.dumps(e)[:600])
v = d["violation"]
print(v["check"])
for k, x in v["detail"].items():
    print("   ", k, ":", json.dumps(x, default=repr)[:900])
