"""Automatic mutation campaign: how many small code changes that survive the repository's own
test suite are caught by the checks?

  python dst/automut.py --n 300 --seed 1 --runs 600 --out /tmp/automut.jsonl

For a seeded sample of line-level mutants (operator swaps) in the files the claimed properties are
anchored in: apply to a scratch copy, compile, run the repo's tests (a mutant the tests kill is
not interesting), then run every check with a reduced run count.  Prints one JSON line per mutant
and a summary.  Scratch copies live in /dev/shm and are removed after each mutant.
"""
import argparse
import json
import os
import random
import re
import shutil
import subprocess
import sys
import time

VERIF = os.path.dirname(os.path.dirname(os.path.abspath(__file__)))
SCRATCH = "/dev/shm/dst_automut"
FILES = [
    "prosemirror/transform/map.py", "prosemirror/transform/step.py", "prosemirror/transform/replace_step.py",
    "prosemirror/transform/mark_step.py", "prosemirror/transform/attr_step.py",
    "prosemirror/transform/doc_attr_step.py", "prosemirror/model/replace.py", "prosemirror/model/fragment.py",
    "prosemirror/model/node.py", "prosemirror/model/mark.py", "prosemirror/model/diff.py",
]
# transform.py: only the history bookkeeping and mark planning that C04 is anchored in
PARTIAL = {"prosemirror/transform/transform.py": (58, 194)}
OPS = [
    (r"==", "!="), (r"!=", "=="), (r"<=", "<"), (r">=", ">"), (r"(?<![<>=!])<(?![<=])", "<="),
    (r"(?<![<>=!-])>(?![>=])", ">="), (r" \+ ", " - "), (r" - ", " + "), (r" and ", " or "), (r" or ", " and "),
    (r"\bnot ", ""), (r"\+= ", "-= "), (r"-= ", "+= "), (r"\bTrue\b", "False"), (r"\bFalse\b", "True"),
    (r", 1\)", ", -1)"), (r", -1\)", ", 1)"), (r" \+ 1\b", " + 2"), (r" - 1\b", " - 2"), (r"\b0\b", "1"),
    (r"\bmin\(", "max("), (r"\bmax\(", "min("), (r"\[i \+ 1\]", "[i + 2]"), (r"\bis not None\b", "is None"),
]
CHECKS = ["C01", "C03", "C04", "C05", "C08", "C10", "C16", "C17", "C20"]


def sh(cmd, timeout=None):
    return subprocess.run(cmd, shell=True, capture_output=True, text=True, timeout=timeout)


def sites():
    out = []
    for path in FILES + list(PARTIAL):
        lines = open(os.path.join("/repo", path)).read().split("\n")
        lo, hi = PARTIAL.get(path, (1, len(lines)))
        in_doc = False
        for i, line in enumerate(lines, 1):
            if not (lo <= i <= hi):
                continue
            st = line.strip()
            if st.count('"""') % 2 == 1:
                in_doc = not in_doc
                continue
            if in_doc or not st or st.startswith(("#", "import ", "from ", "@", "def ", "class ", "msg =", "raise ")):
                continue
            if "TYPE_CHECKING" in st or st.startswith(("assert isinstance", '"', "'")):
                continue
            code = line.split("  #")[0]
            for k, (pat, rep) in enumerate(OPS):
                for m in re.finditer(pat, code):
                    # skip matches inside string literals (cheap test)
                    if code[:m.start()].count('"') % 2 == 1:
                        continue
                    out.append((path, i, k, m.start()))
    return out


def apply_site(root, site):
    path, lineno, k, col = site
    f = os.path.join(root, path)
    lines = open(f).read().split("\n")
    line = lines[lineno - 1]
    pat, rep = OPS[k]
    m = re.compile(pat).match(line, col) or re.compile(pat).search(line, col)
    if not m:
        return None
    new = line[:m.start()] + rep + line[m.end():]
    lines[lineno - 1] = new
    open(f, "w").write("\n".join(lines))
    return line.strip(), new.strip()


def main():
    ap = argparse.ArgumentParser()
    ap.add_argument("--n", type=int, default=200)
    ap.add_argument("--seed", type=int, default=1)
    ap.add_argument("--runs", type=int, default=600)
    ap.add_argument("--out", default="/tmp/automut.jsonl")
    ap.add_argument("--checks", default=",".join(CHECKS))
    a = ap.parse_args()
    allsites = sites()
    rng = random.Random(a.seed)
    rng.shuffle(allsites)
    print("mutation sites: %d, sampling %d" % (len(allsites), a.n), flush=True)
    summary = {"compiled": 0, "killed_by_tests": 0, "survived_tests": 0, "caught": 0, "missed": 0}
    out = open(a.out, "a")
    done = 0
    for site in allsites:
        if done >= a.n:
            break
        d = os.path.join(SCRATCH, "m")
        shutil.rmtree(d, ignore_errors=True)
        os.makedirs(d)
        sh("git -C /repo archive HEAD | tar -x -C %s" % d)
        ch = apply_site(d, site)
        if ch is None or ch[0] == ch[1]:
            continue
        r = sh("cd %s && /venv/bin/python -m py_compile %s" % (d, site[0]))
        if r.returncode:
            continue
        done += 1
        summary["compiled"] += 1
        rec = {"file": site[0], "line": site[1], "old": ch[0], "new": ch[1]}
        t = sh("cd %s && PYTHONPATH=%s timeout 300 /venv/bin/python -m pytest -q -x -p no:cacheprovider 2>&1 | tail -1" % (d, d))
        rec["tests"] = t.stdout.strip()[-60:]
        if "passed" not in rec["tests"] or "failed" in rec["tests"] or "error" in rec["tests"]:
            summary["killed_by_tests"] += 1
            rec["verdict"] = "killed_by_tests"
        else:
            summary["survived_tests"] += 1
            caught = []
            t0 = time.time()
            for c in a.checks.split(","):
                rr = sh("cd %s && VERIF_REPO=%s VERIF_OUT=%s/_out timeout 600 ./check %s --runs %d --budget 120" % (
                    VERIF, d, d, c, a.runs))
                if rr.returncode == 1:
                    first = [l for l in rr.stdout.splitlines() if l.startswith("violation")]
                    caught.append((c, first[0][:90] if first else ""))
                elif rr.returncode != 0:
                    caught.append((c + ":exit%d" % rr.returncode,
                                   ([l for l in rr.stdout.splitlines() if "INTERNAL" in l] or [""])[0][:120]))
            rec["wall"] = round(time.time() - t0, 1)
            rec["caught_by"] = caught
            real = [c for c, _ in caught if ":" not in c]
            rec["verdict"] = "caught" if real else ("internal_only" if caught else "missed")
            summary["caught" if real else "missed"] += 1
        out.write(json.dumps(rec) + "\n")
        out.flush()
        print(json.dumps(rec), flush=True)
        shutil.rmtree(d, ignore_errors=True)
    print("SUMMARY", json.dumps(summary), flush=True)


if __name__ == "__main__":
    sys.exit(main())
